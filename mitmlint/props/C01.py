"""C01 - HTTP/1 forwarding is framing-consistent: no request or response desync.

Decided (structural clauses without which desync is possible):
  R01.1 decision table of net/http/http1/read.py::expected_http_body_size over the abstract domain
        {request,response} x method {GET,HEAD,CONNECT} x status {1xx,200,204,304,404} x
        TE {absent, chunked, "gzip, chunked", identity, gzip, unknown, non-ASCII-that-lower()-folds} x
        CL {absent, valid, invalid}  ==  RFC 9112 section 6.3 (0 / n / None=chunked / -1=until-EOF / ValueError).
  R01.2 validate_headers raises exactly on the reference set (TE+CL, duplicate TE/CL, TE on HTTP/1.0, TE on 1xx/204,
        non-chunked-final TE on a request, unknown TE, invalid CL, invalid field name); the three regexes are checked
        by *language* (field name == tchar+, Content-Length == 0|[1-9][0-9]*); the TE vocabulary is the 8 literals.
  R01.3 HttpStream validates before anything is forwarded (explored on the extracted model), the rejection path
        shape of check_invalid, and validate_headers is called whenever the option is on.
  R01.4 reader <-> writer framing agree: make_body_reader table, the five "is chunked" predicates are the same
        expression modulo receiver, chunk frame / terminator literals, non-chunked data is sent unchanged.
  R01.5 the parse-error paths of Http1Server/Http1Client.read_headers close and report, never start a body reader.
Not decided: byte-level equality of what an independent RFC 9112 parser reads (h11 internals, all byte streams).
"""

from __future__ import annotations

import ast
import itertools

from .. import rx
from ..absint import HeadersModel
from ..absint import Interp
from ..pyint import Interp as _PyInterp
from ..pyint import Raised as _PRaised
from ..pyint import Rec as _PRec
from ..absint import Raised
from ..absint import Rec
from ..core import AnalysisError
from ..core import norm
from ..httpstream import HttpStreamSpec
from ..httpstream import init_env
from ..httpstream import REL
from ..layerx import explore
from ..model import attr_chain
from ..model import calls_in
from ..model import last_attr
from ..model import walk_in_order
from ..paths import C
from ..paths import Engine
from ..paths import GenericSpec
from ..paths import State
from ..paths import traces_of
from ..selftest import Mutant
from .C03 import Lifecycle

PROP = "C01"
REG = {
    "strength": "partial",
    "technique": "decision tables by AST interpretation over an abstract header domain, regex language equivalence, model exploration (validate-before-forward), sibling agreement",
    "claim": "the framing decision (expected_http_body_size) and the rejection set (validate_headers) equal RFC 9112 reference tables on every abstract cell; "
    "the validation regexes have exactly the RFC languages; HttpStream validates before forwarding on every explored transition; readers and writers frame alike.",
    "note": "Header values are abstract classes with one representative each; Headers.get/fields, Message.is_http11 and h11's readers are trusted models. "
    "Language comparison is over strings without CR/LF (Python's `$` also matches before a trailing newline; _read_headers never delivers one).",
}

READ = "mitmproxy/net/http/http1/read.py"
VAL = "mitmproxy/net/http/validate.py"
H1 = "mitmproxy/proxy/layers/http/_http1.py"
ASM = "mitmproxy/net/http/http1/assemble.py"

TE_CLASSES = {
    "absent": None,
    "chunked": b"chunked",
    "gzip+chunked": b"gzip, chunked",
    "identity": b"identity",
    "gzip": b"GZip",
    "unknown": b"bogus",
    "nonascii-fold": "chun\u212aed".encode(),  # KELVIN SIGN lower-cases to 'k'
}
CL_CLASSES = {"absent": None, "valid": b"12", "invalid": b"+12"}


def headers_of(te, cl, extra=()):
    f = []
    if te is not None:
        f.append((b"Transfer-Encoding", te))
    if cl is not None:
        f.append((b"Content-Length", cl))
    f.extend(extra)
    return HeadersModel(f)


def ref_body_size(kind, method, status, te, cl):
    """RFC 9112 6.3 reference. Returns value, 'ValueError', or 'dontcare'."""
    if kind == "response":
        if method == "HEAD":
            return 0
        if 100 <= status <= 199 or status in (204, 304):
            return 0
        if 200 <= status <= 299 and method == "CONNECT":
            return 0
    if te != "absent":
        if te in ("unknown", "nonascii-fold"):
            return "ValueError"
        if te in ("chunked", "gzip+chunked"):
            return None
        # transfer-encoding present, chunked not final
        if kind == "response":
            return -1
        return "dontcare"  # request: must be rejected (R01.2 demands validate_headers raises); leniency without validation is not framing-relevant here
    if cl == "valid":
        return 12
    if cl == "invalid":
        return "ValueError"
    return 0 if kind == "request" else -1


class _Log:
    """stand-in for the `logging` module / a logger: nothing is enabled, every call is a no-op"""

    DEBUG, INFO, WARNING, ERROR = 10, 20, 30, 40

    def getLogger(self, *a, **k):
        return self

    def isEnabledFor(self, *a, **k):
        return False

    def __getattr__(self, name):
        if name in ("debug", "info", "warning", "error", "exception", "log", "critical"):
            return lambda *a, **k: None
        raise AttributeError(name)


class _PI:
    """pyint with the (rel, qual, {kwargs}) calling convention of the older absint interpreter"""

    def __init__(self, model, externals=None):
        self.model, self.externals = model, externals

    def _it(self):
        import re as _re

        return _PyInterp(self.model, trusted_modules={"re": _re, "logging": _Log()}, externals=self.externals)

    def call(self, rel, qual, kwargs):
        return self._it().call(rel, qual, **kwargs)


def check(ctx):
    ctx.exhaustive = True
    ctx.bounds.append("loops unrolled once in path enumeration; the two decision tables enumerate their abstract domains completely; the HttpStream model is explored to a fix-point")
    ctx.rule("R01.1", "expected_http_body_size decision table == RFC 9112 6.3")
    ctx.rule("R01.2", "validate_headers rejection set == reference; regex languages == RFC grammar; TE vocabulary")
    ctx.rule("R01.3", "validation happens before anything is forwarded; rejection path shape; validate_headers called iff option on")
    ctx.rule("R01.4", "reader/writer framing agreement (body reader table, chunked predicates, chunk literals)")
    ctx.rule("R01.5", "header parse errors close + report and never start a body reader")
    ctx.rule("R01.6", "Expect: 100-continue is tested on every forwarding path of state_wait_for_request_headers and removed when answered (an interim 100 from upstream would desync responses)")
    m = ctx.model
    it = _PI(m)
    ctx.func(READ, "expected_http_body_size")
    ctx.func(VAL, "validate_headers")
    ctx.func(VAL, "parse_transfer_encoding")
    ctx.func(VAL, "parse_content_length")
    ctx.trust("re (whitelisted literal-pattern operations), str/bytes methods")
    ctx.trust("model of mitmproxy.http.Headers reads (case-insensitive get joining with ', ', .fields)")

    # ---- R01.1
    bad = 0
    cells = 0
    # status / method representatives: one per class of RFC 9112 6.3, the boundaries of the classes, and - so that a wrong row added
    # for any particular code or method is seen - every status-like integer and method-like string literal the function itself mentions
    # (with its neighbours)
    fn_ebs = m.func(READ, "expected_http_body_size")
    lit_status = {c.value for c in ast.walk(fn_ebs) if isinstance(c, ast.Constant) and type(c.value) is int and 100 <= c.value <= 599}
    statuses = sorted({100, 101, 199, 200, 201, 203, 204, 205, 206, 299, 300, 301, 303, 304, 305, 400, 404, 500, 599} | {v + d for v in lit_status for d in (-1, 0, 1) if 100 <= v + d <= 599})
    lit_methods = {c.value.upper() for c in ast.walk(fn_ebs) if isinstance(c, ast.Constant) and isinstance(c.value, str) and c.value.isalpha() and c.value.isupper() and 3 <= len(c.value) <= 8}
    methods = sorted({"GET", "HEAD", "CONNECT", "POST", "OPTIONS"} | lit_methods)
    for kind in ("request", "response"):
        for method in methods:
            for status in ((None,) if kind == "request" else statuses):
                for te, cl in itertools.product(TE_CLASSES, CL_CLASSES):
                    want = ref_body_size(kind, method, status, te, cl)
                    h = headers_of(TE_CLASSES[te], CL_CLASSES[cl])
                    req = _PRec("Request", method=method, headers=h if kind == "request" else headers_of(None, None))
                    resp = None if kind == "request" else _PRec("Response", status_code=status, headers=h)
                    try:
                        got = it.call(READ, "expected_http_body_size", {"request": req, "response": resp})
                    except (Raised, _PRaised) as r:
                        got = r.name
                    cells += 1
                    ctx.cells += 1
                    if want == "dontcare":
                        continue
                    if got != want or type(got) is not type(want):
                        bad += 1
                        cell = f"{kind} method={method} status={status} TE={te} CL={cl}"
                        ctx.fail("R01.1", (READ, "expected_http_body_size", m.func(READ, "expected_http_body_size")), cell,
                                 f"returns {got!r}, RFC 9112 6.3 says {want!r}: mitmproxy would frame this message differently from a compliant peer")
                    if cells in (5, 77, 300):
                        ctx.sample({"cell": f"{kind} {method} {status} TE={te} CL={cl}", "result": repr(got), "reference": repr(want)})
    ctx.require(cells >= 21 * 5 * (1 + 19), f"expected at least {21 * 5 * 20} framing cells, enumerated {cells}")
    if not bad:
        ctx.ok("R01.1", f"{cells} cells equal the RFC 9112 6.3 reference")

    # ---- R01.2 table
    bad = 0
    cells2 = 0
    te_lists = {"none": [], "chunked": [b"chunked"], "gzip+chunked": [b"gzip, chunked"], "gzip": [b"gzip"], "identity": [b"identity"], "unknown": [b"bogus"],
                "nonascii-fold": ["chun\u212aed".encode()], "two": [b"chunked", b"chunked"]}
    cl_lists = {"none": [], "valid": [b"12"], "invalid": [b"1e3"], "two-equal": [b"12", b"12"], "leading-zero": [b"012"]}
    fn_val = m.func(VAL, "validate_headers")
    val_lit = {c.value for c in ast.walk(fn_val) if isinstance(c, ast.Constant) and type(c.value) is int and 100 <= c.value <= 599}
    val_statuses = sorted({100, 101, 199, 200, 204, 205, 304, 404} | {v + d for v in val_lit for d in (-1, 0, 1) if 100 <= v + d <= 599})
    for kind in ("request", "response"):
        for http11 in (True, False):
            for status in ((None,) if kind == "request" else val_statuses):
                for te, cl in itertools.product(te_lists, cl_lists):
                    for badname in (False, True):
                        fields = [(b"Transfer-Encoding", v) for v in te_lists[te]] + [(b"content-length", v) for v in cl_lists[cl]] + [(b"X-Ok", b"1")]
                        if badname:
                            fields.append((b"Bad Name", b"x"))
                        msg = _PRec("Request" if kind == "request" else "Response", _bases=("Message",), headers=HeadersModel(fields), is_http11=http11,
                                  http_version="HTTP/1.1" if http11 else "HTTP/1.0", status_code=status)
                        try:
                            it.call(VAL, "validate_headers", {"message": msg})
                            got = "accept"
                        except (Raised, _PRaised) as r:
                            got = "reject" if r.name == "ValueError" else f"raises {r.name}"
                        n_te, n_cl = len(te_lists[te]), len(cl_lists[cl])
                        reject = (
                            badname
                            or (n_te and n_cl)
                            or n_te > 1
                            or (n_te and not http11)
                            or (n_te and kind == "response" and (100 <= status <= 199 or status == 204))
                            or (n_te and te in ("unknown", "nonascii-fold"))
                            or (n_te and kind == "request" and te in ("gzip", "identity"))
                            or (not n_te and n_cl > 1)
                            or (not n_te and cl in ("invalid", "leading-zero"))
                        )
                        want = "reject" if reject else "accept"
                        cells2 += 1
                        ctx.cells += 1
                        if got != want:
                            bad += 1
                            cell = f"{kind} http11={http11} status={status} TE={te} CL={cl} invalid-name={badname}"
                            ctx.fail("R01.2", (VAL, "validate_headers", m.func(VAL, "validate_headers")), cell,
                                     f"validate_headers gives '{got}', the reference says '{want}' (an ambiguous framing would be forwarded / a valid message refused)")
                        if cells2 in (9, 200):
                            ctx.sample({"cell": f"{kind} http11={http11} status={status} TE={te} CL={cl} badname={badname}", "result": got})
    ctx.require(cells2 >= 2 * 2 * 40 * (1 + 8), f"expected at least {2 * 2 * 40 * 9} validation cells, enumerated {cells2}")
    if not bad:
        ctx.ok("R01.2", f"{cells2} cells: rejection set equals the reference")
    # regex languages
    mod = m.module(VAL)

    def pattern_of(name):
        vals = mod.assigns(name)
        ctx.require(vals, f"{VAL}::{name} vanished")
        pats = rx.find_call_patterns(vals[-1], funcs=("compile",))
        ctx.require(len(pats) == 1, f"{name} is no longer re.compile(<literal>)")
        return pats[0][1], pats[0][2]

    tchar = rb"[!#$%&'*+.^_`|~0-9A-Za-z-]+"
    for name, ref in (("_valid_header_name", tchar), ("_valid_content_length", rb"0|[1-9][0-9]*"), ("_valid_content_length_str", r"0|[1-9][0-9]*")):
        pat, flags = pattern_of(name)
        a, b = rx.nfa_of(pat, flags), rx.nfa_of(ref)
        only_code, only_ref = rx.compare(a, b)
        ctx.check(only_code is None and only_ref is None, "R01.2", (VAL, "<module>", mod.assigns(name)[-1]), f"{name} language",
                  f"accepts {rx.show(only_code)} which the RFC grammar does not / misses {rx.show(only_ref)}", desc=f"{name} == RFC grammar")
    # match() is used, so the pattern must be end-anchored (checked through the language above: ^...$ are empty in the NFA, so also require the anchors)
    for name in ("_valid_header_name", "_valid_content_length", "_valid_content_length_str"):
        pat, _ = pattern_of(name)
        s = pat.decode() if isinstance(pat, bytes) else pat
        ctx.check(s.endswith("$") and not s.endswith("\\$"), "R01.2", (VAL, "<module>", mod.assigns(name)[-1]), f"{name} end anchor",
                  "pattern used with .match() is not anchored at the end: a valid prefix followed by garbage would pass", desc=f"{name} anchored")
    vocab = it._it().ev(mod.assigns("_HTTP_1_1_TRANSFER_ENCODINGS")[-1], {}, mod, 0)
    ref_vocab = {"chunked", "compress,chunked", "deflate,chunked", "gzip,chunked", "compress", "deflate", "gzip", "identity"}
    ctx.check(set(vocab) == ref_vocab, "R01.2", (VAL, "<module>", mod.assigns("_HTTP_1_1_TRANSFER_ENCODINGS")[-1]), "transfer-coding vocabulary",
              f"vocabulary {sorted(vocab)} differs from the 8 accepted codings", desc="TE vocabulary")

    # ---- R01.3
    class ValidateFirst(Lifecycle):
        def step(self, mon, ev, trace, env, report, exc=None):
            if ev[1] in ("RequestHeaders", "ResponseHeaders"):
                aborted = ("hook", "HttpErrorHook") in trace
                seen_ci = False
                for e in trace:
                    if e[0] == "ci":
                        seen_ci = True
                    elif not seen_ci:
                        if e[0] == "getconn" or (e[0] == "send" and not e[1].endswith("ProtocolError")):
                            report(f"R01.3 {ev[1]}: {e} happens before header validation")
                        if e[0] == "hook" and not aborted:
                            report(f"R01.3 {ev[1]}: hook {e[1]} fires before header validation on a path that continues")
                if not seen_ci and not aborted and any(e[0] in ("hook", "send", "getconn") for e in trace):
                    report(f"R01.3 {ev[1]}: path without header validation: {[e for e in trace if e[0] in ('hook', 'send', 'getconn')][:4]}")
            return Lifecycle.step(self, mon, ev, trace, env, lambda _m: None, exc)

    spec = HttpStreamSpec(m)
    entry = ctx.func(REL, "HttpStream._handle_event")
    res = explore(spec, entry, init_env(), ValidateFirst())
    ctx.paths += res["transitions"]
    ctx.require(res["states"] >= 40, "HttpStream exploration collapsed")
    msgs = sorted({v["message"] for v in res["violations"] if v["message"].startswith("R01.3")})
    for msg in msgs:
        ctx.fail("R01.3", (REL, "HttpStream", entry), msg[6:], "an unvalidated (possibly ambiguous) message head is processed or forwarded")
    if not msgs:
        ctx.ok("R01.3", f"{res['transitions']} transitions: check_invalid precedes every hook/forward on header events")
    # rejection path shape
    ci = ctx.func(REL, "HttpStream.check_invalid")
    for request in (True, False):
        eng = Engine(HttpStreamSpec(m))
        finals = eng.finals(ci, State((), init_env()), {"request": C(request)})
        rej = [f for f in finals if f.get("$ret") == C(True)]
        acc = [f for f in finals if f.get("$ret") == C(False)]
        ctx.require(rej and acc, "check_invalid lost its accept or reject path")
        for f in rej:
            t = f.trace
            sends = [e for e in t if e[0] == "send"]
            hooks = [e[1] for e in t if e[0] == "hook"]
            good = (
                sends == [("send", "ResponseProtocolError", "client")]
                and hooks == (["HttpRequestHeadersHook", "HttpErrorHook"] if request else ["HttpErrorHook"])
                and ("set", "self.client_state", "self.state_errored") in t
                and ("set", "self.server_state", "self.state_errored") in t
                and ("live", False) in t
                and ("error:=",) in t
                and (request or ("close", "server") in t)
            )
            ctx.check(good, "R01.3", (REL, "HttpStream.check_invalid", ci), f"rejection path request={request}",
                      f"an invalid message must end the flow with an error and be answered with a protocol error only; got sends={sends} hooks={hooks}", desc=f"rejection path shape request={request}")
        for f in acc:
            ctx.check(not [e for e in f.trace if e[0] in ("send", "hook", "set")], "R01.3", (REL, "HttpStream.check_invalid", ci), f"accept path request={request}", "accept path has side effects", desc=f"accept path silent request={request}")
    # validate_headers is called whenever the option is on
    vr = ctx.func(REL, "validate_request")
    tr, _ = traces_of(vr, GenericSpec(keep=lambda e: e[0] == "cond" or (e[0] == "call" and e[1].endswith("validate_headers")), record_conds=True))
    on = [t for t, how, s in tr if ("cond", "validate_inbound_headers", True) in t]
    ctx.check(bool(on) and all(any(e[0] == "call" for e in t) for t in on), "R01.3", (REL, "validate_request", vr), "validate_inbound_headers -> validate_headers(request)",
              "requests are not validated although the option is on", desc="validate_request calls validate_headers when on")
    tr, _ = traces_of(ci, GenericSpec(keep=lambda e: e[0] == "cond" or (e[0] == "call" and (e[1].endswith("validate_headers") or e[1].endswith("validate_request"))), record_conds=True))
    resp_on = [t for t, how, s in tr if ("cond", "request", False) in t and ("cond", "self.context.options.validate_inbound_headers", True) in t]
    ctx.check(bool(resp_on) and all(("call", "validate_headers") in t for t in resp_on), "R01.3", (REL, "HttpStream.check_invalid", ci), "responses: option on -> validate_headers(response)",
              "responses are not validated although the option is on", desc="check_invalid validates responses when on")
    req_paths = [t for t, how, s in tr if ("cond", "request", True) in t]
    ctx.check(bool(req_paths) and all(("call", "validate_request") in t for t in req_paths), "R01.3", (REL, "HttpStream.check_invalid", ci), "requests -> validate_request(...)",
              "requests bypass validate_request", desc="check_invalid validates requests")
    ctx.expect_instances("R01.3", 8)

    # ---- R01.6  Expect: 100-continue is consumed by mitmproxy and never forwarded
    # mitmproxy answers the expectation itself and has no handling for an interim 100 response from upstream: a forwarded
    # `Expect: 100-continue` makes a compliant origin send `100 Continue` + the final response, which mitmproxy records/relays as
    # two final responses (the second is attributed to the next request on the connection - a response desync).
    swr = ctx.func(REL, "HttpStream.state_wait_for_request_headers")

    def _res(call):
        f = call.func
        if isinstance(f, ast.Attribute) and isinstance(f.value, ast.Name) and f.value.id == "self" and m.has(REL, "HttpStream." + f.attr):
            d = m.func(REL, "HttpStream." + f.attr)
            # only helpers that deal with the Expect header are seen through (extract-method refactors of the branch)
            if isinstance(d, (ast.FunctionDef, ast.AsyncFunctionDef)) and any(isinstance(c, ast.Constant) and isinstance(c.value, str) and c.value.lower() in ("expect", "100-continue") for c in ast.walk(d)):
                return d
        return None

    def _mentions_expect(text):
        return "expect" in text.lower() and ("headers" in text or "100-continue" in text)

    def _keep6(e):
        if e[0] == "cond":
            return _mentions_expect(e[1])
        if e[0] == "call":
            return e[1].endswith("headers.pop") or e[1].endswith("headers.__delitem__")
        if e[0] == "del":
            return "headers[" in e[1] and "expect" in e[1].lower()
        if e[0] == "assign":
            return e[1] == "self.server_state"
        return False

    class ExpectSpec(GenericSpec):
        def events(self, node, st):
            out = []
            for ev in super().events(node, st):
                out.append(ev)
            # keep the popped key: ('call', '...headers.pop') carries no arguments, so add a marker for the expect key
            for n in ast.walk(node) if not isinstance(node, (ast.If, ast.While, ast.For, ast.Try, ast.With, ast.FunctionDef)) else []:
                if isinstance(n, ast.Call) and isinstance(n.func, ast.Attribute) and n.func.attr == "pop" and norm(n.func.value).endswith("request.headers") and n.args and isinstance(n.args[0], ast.Constant) and str(n.args[0].value).lower() == "expect":
                    out.append(("drop-expect",))
                if isinstance(n, ast.Delete):
                    for t in n.targets:
                        if isinstance(t, ast.Subscript) and norm(t.value).endswith("request.headers") and isinstance(t.slice, ast.Constant) and str(t.slice.value).lower() == "expect":
                            out.append(("drop-expect",))
            return out

    tr6, _ = traces_of(swr, ExpectSpec(keep=lambda e: e[0] == "drop-expect" or _keep6(e), resolver=_res, record_conds=True))
    forwards = [t for t, how, st in tr6 if how == "return" and any(e[0] == "assign" and e[1] == "self.server_state" for e in t)]
    ctx.require(forwards, "state_wait_for_request_headers: no path arms server_state (anchor changed)")
    ctx.paths += len(tr6)
    unsafe = []
    for t in forwards:
        dropped = ("drop-expect",) in t
        tests = [e for e in t if e[0] == "cond" and _mentions_expect(e[1])]
        absent = any(not e[2] and "100-continue" in e[1] or (not e[2] and "in " in e[1]) for e in tests)
        if not (dropped or (tests and absent)):
            unsafe.append(t)
    ctx.check(not unsafe, "R01.6", (REL, "HttpStream.state_wait_for_request_headers", swr), "Expect: 100-continue consumed before the request is forwarded",
              f"{len(unsafe)} of {len(forwards)} forwarding path(s) neither test the request's Expect header nor remove it: `Expect: 100-continue` reaches the upstream server, "
              "whose interim 100 response mitmproxy would relay/record as a final response (response desync)", desc=f"{len(forwards)} forwarding paths test or strip Expect")
    sends100 = [t for t in forwards if any(e[0] == "cond" and e[2] and "100-continue" in e[1] for e in t)]
    ctx.check(bool(sends100) and all(("drop-expect",) in t for t in sends100), "R01.6", (REL, "HttpStream.state_wait_for_request_headers", swr), "Expect header removed when mitmproxy answers 100 Continue itself",
              "on a path where the expectation is answered by mitmproxy the header is not removed from the forwarded request", desc="expect header popped on the 100-continue path")
    ctx.expect_instances("R01.6", 2)

    # ---- R01.4
    itr = _PI(m, externals={"ChunkedReader": lambda: "Chunked", "Http10Reader": lambda: "Http10", "ContentLengthReader": lambda n: ("ContentLength", n)})
    for arg, want in ((None, "Chunked"), (-1, "Http10"), (0, ("ContentLength", 0)), (12, ("ContentLength", 12))):
        got = itr.call(H1, "make_body_reader", {"expected_size": arg})
        ctx.cells += 1
        ctx.check(got == want, "R01.4", (H1, "make_body_reader", m.func(H1, "make_body_reader")), f"make_body_reader({arg!r})", f"yields {got!r}, expected {want!r}: body is read with a different framing than announced",
                  desc=f"make_body_reader({arg!r}) -> {want}")
    # writers: the framing Http1Client.send / Http1Server.send / assemble_body put on the wire, observed by interpreting their ASTs
    # (mitmlint.pyint; commands are recording stubs, mark_done / expected_http_body_size are stubbed) for every Transfer-Encoding class:
    # chunk frames <hex len>CRLF<data>CRLF and the last-chunk 0CRLFCRLF exactly when the header block announces chunked (never for the
    # end of a HEAD response), identity bytes otherwise.  Helpers, constants and match/if shape are followed by the interpreter.
    from ..pyint import DictRec as PDict
    from ..pyint import Interp as PInterp
    from ..pyint import Raised as PRaised
    from ..pyint import Rec as PRec

    class _Cmd:
        def __init__(self, name, data=None):
            self.name, self.data = name, data

        def __repr__(self):
            return f"{self.name}({self.data!r})" if self.data is not None else self.name

    def _ext():
        send = lambda conn, data: _Cmd("SendData", data)  # noqa: E731
        other = lambda name: (lambda *a, **k: _Cmd(name))  # noqa: E731
        return {"commands.SendData": send, "SendData": send, "self.mark_done": lambda *a, **k: iter([_Cmd("mark_done")]),
                "commands.CloseTcpConnection": other("CloseTcpConnection"), "CloseTcpConnection": other("CloseTcpConnection"),
                "commands.CloseConnection": other("CloseConnection"), "CloseConnection": other("CloseConnection"), "commands.Log": other("Log"),
                "http1.expected_http_body_size": lambda *a, **k: 0, "expected_http_body_size": lambda *a, **k: 0}

    TE_W = {"absent": None, "chunked": "chunked", "gzip, chunked": "gzip, chunked", "Chunked": "Chunked", "identity": "identity", "gzip": "gzip"}
    DATA = b"hello, world"  # 12 bytes: the length is written in hex
    LAST = b"0\r\n\r\n"
    for qual, datak, eomk, recv in (("Http1Client.send", "RequestData", "RequestEndOfMessage", "request"), ("Http1Server.send", "ResponseData", "ResponseEndOfMessage", "response")):
        fn = ctx.func(H1, qual)
        where = (H1, qual, fn)
        cls = qual.split(".")[0]
        res = {"frame": [], "identity": [], "last": []}
        for te_name, te in TE_W.items():
            chunked = te is not None and "chunked" in te.lower()
            for method in ("GET", "HEAD"):
                def world():
                    hdr = PDict("Headers", items=({"transfer-encoding": te} if te is not None else {}), case_insensitive=True)
                    other = PDict("Headers", items={}, case_insensitive=True)
                    req = PRec("Request", method=method, headers=hdr if recv == "request" else other, is_http2=False, is_http3=False)
                    resp = PRec("Response", headers=hdr if recv == "response" else other, status_code=200)
                    return PRec(cls, _bases=("Http1Connection", "HttpConnection", "Layer"), _impl=(H1, cls), conn=PRec("Connection", state=3), request=req, response=resp, stream_id=1,
                                request_done=False, response_done=False)

                def run(kind, **attrs):
                    it = PInterp(m, externals=_ext())
                    ev = PRec(kind, _bases=("HttpEvent", "Event"), stream_id=1, **attrs)
                    try:
                        return [c for c in it.method(world(), "send", ev)]
                    except PRaised as r:
                        return [f"<raises {r.name}>"]

                sent = [c.data for c in run(datak, data=DATA) if isinstance(c, _Cmd) and c.name == "SendData"]
                ctx.cells += 1
                if chunked:
                    if sent not in ([b"c\r\n" + DATA + b"\r\n"], [b"C\r\n" + DATA + b"\r\n"]):
                        res["frame"].append(f"TE {te_name}: {datak}({DATA!r}) is written as {sent!r}")
                else:
                    if sent != [DATA]:
                        res["identity"].append(f"TE {te_name}: {datak}({DATA!r}) is written as {sent!r}")
                # an empty data event (a stream modifier that swallows a chunk) writes nothing: under chunked coding "0CRLFCRLF" would be
                # the last-chunk and end the message early (F-C01c, repaired in /repo f1f995324)
                out = run(datak, data=b"")
                sent = [c.data for c in out if isinstance(c, _Cmd) and c.name == "SendData"]
                ctx.cells += 1
                if sent or any(isinstance(c, str) for c in out):
                    res["frame" if chunked else "identity"].append(f"TE {te_name}: an empty {datak} is written as {sent!r} (expected nothing)")
                out = run(eomk)
                sent = [c.data for c in out if isinstance(c, _Cmd) and c.name == "SendData"]
                ctx.cells += 1
                want = [LAST] if chunked and not (recv == "response" and method == "HEAD") else []
                if sent != want or any(isinstance(c, str) for c in out):
                    res["last"].append(f"TE {te_name}, request method {method}: {eomk} writes {sent!r} (expected {want!r})")
        ctx.check(not res["frame"], "R01.4", where, f"{datak}: chunk frame", "a chunk is not framed as <hex length>CRLF<data>CRLF exactly when the headers announce chunked: " + "; ".join(res["frame"][:2]), desc=f"{qual}: chunk frame under chunked")
        ctx.check(not res["identity"], "R01.4", where, f"{datak}: identity body", "non-chunked body data is not sent unchanged: " + "; ".join(res["identity"][:2]), desc=f"{qual}: identity relay of non-chunked data")
        ctx.check(not res["last"], "R01.4", where, f"{eomk}: last-chunk", "the chunked terminator 0CRLFCRLF is not emitted exactly when the message is chunked (and not for HEAD responses): " + "; ".join(res["last"][:2]),
                  desc=f"{qual}: terminator exactly under chunked")
    # assemble_body (used for non-streamed serialisation / raw export)
    ab = ctx.func(ASM, "assemble_body")
    badab = []
    for te_name, te in TE_W.items():
        chunked = te is not None and "chunked" in te.lower()
        hdr = PDict("Headers", items=({"transfer-encoding": te} if te is not None else {}), case_insensitive=True)
        for chunks in ([DATA], [b"ab", b"", b"cde"]):
            it = PInterp(m)
            try:
                got = list(it.call(ASM, "assemble_body", hdr, list(chunks), None))
            except PRaised as r:
                got = [f"<raises {r.name}>"]
            ctx.cells += 1
            want = [b"%x\r\n%s\r\n" % (len(c), c) for c in chunks if c] + [LAST] if chunked else list(chunks)
            if b"".join(x if isinstance(x, bytes) else b"?" for x in got) != b"".join(want):
                badab.append(f"TE {te_name}, chunks {chunks!r}: {got!r}")
    ctx.check(not badab, "R01.4", (ASM, "assemble_body", ab), "assemble_body framing", "assemble_body frames the body differently from what the headers announce: " + "; ".join(badab[:2]), desc="assemble_body: chunked frames + terminator exactly under chunked")
    ctx.expect_instances("R01.4", 4 + 6 + 1)

    # ---- R01.5
    class H1Spec(GenericSpec):
        def raises_into(self, stmt, handler_names, st):
            return ["ValueError"] if "ValueError" in handler_names else []

        def handler_event(self, handler, exc, st):
            return ("handler", exc)

    for qual, must, kind in (
        ("Http1Server.read_headers", [("call", "make_error_response"), ("yield", "CloseConnection")], "RequestProtocolError"),
        ("Http1Client.read_headers", [("yield", "CloseConnection"), ("yield", "ReceiveHttp")], "ResponseProtocolError"),
    ):
        fn = ctx.func(H1, qual)
        spec5 = H1Spec(keep=lambda e: e[0] in ("yield", "assign") or (e[0] == "call" and last_attr_text(e[1]) in ("make_body_reader", "make_error_response", kind)))
        tr, _ = traces_of(fn, spec5)
        err = [t for t, how, s in tr if ("handler", "ValueError") in t]
        ctx.require(err, f"{qual}: no ValueError path")
        for t in err:
            after = t[t.index(("handler", "ValueError")):]
            good = all(x in after for x in must) and not any(e[0] == "call" and e[1].endswith("make_body_reader") for e in after) and ("assign", "self.body_reader") not in after
            if qual.startswith("Http1Server"):
                good = good and ("assign", "self.state") in after
            ctx.check(good, "R01.5", (H1, qual, fn), "except ValueError path", f"a malformed head must be answered/closed without starting a body reader; path: {[e for e in after][:8]}", desc=f"{qual}: parse error closes")
    srv = ctx.func(H1, "Http1Server.read_headers")
    hs = [h for n in walk_in_order(srv) if isinstance(n, ast.Try) for h in n.handlers]
    ok400 = any(isinstance(c, ast.Call) and last_attr(c.func) == "make_error_response" and c.args and isinstance(c.args[0], ast.Constant) and c.args[0].value == 400 for h in hs for c in ast.walk(h))
    okdone = any(isinstance(a, ast.Assign) and attr_chain(a.targets[0]) == "self.state" and attr_chain(a.value) == "self.done" for h in hs for a in ast.walk(h))
    ctx.check(ok400 and okdone, "R01.5", (H1, "Http1Server.read_headers", srv), "400 + state=done", "malformed request is not answered with 400 and the connection state machine keeps parsing", desc="server: 400 and done")
    ctx.expect_instances("R01.5", 3)


def last_attr_text(s: str) -> str:
    return s.rsplit(".", 1)[-1]


MUTANTS = [
    Mutant("expect-handled-only-with-body", REL, 'if self.flow.request.headers.get("expect", "").lower() == "100-continue":',
           'if not event.end_stream and self.flow.request.headers.get("expect", "").lower() == "100-continue":', "R01.6"),
    Mutant("expect-not-removed", REL, '            self.flow.request.headers.pop("expect")\n', '            pass\n', "R01.6"),
    Mutant("framing-205-treated-as-bodyless", READ, "response.status_code in (204, 304)", "response.status_code in (204, 205, 304)", "R01.1"),
    Mutant("head-response-has-body", READ, '        if request.method.upper() == "HEAD":\n            return 0\n', "", "R01.1"),
    Mutant("304-has-body", READ, "if response.status_code in (204, 304):", "if response.status_code in (204,):", "R01.1"),
    Mutant("cl-before-te", READ, '    if te_str := headers.get("transfer-encoding"):', '    if (cl0 := headers.get("content-length")) and not response:\n        return validate.parse_content_length(cl0)\n    if te_str := headers.get("transfer-encoding"):', "R01.1"),
    Mutant("response-default-zero", READ, "    if not response:\n        return 0\n\n    #    7.", "    if not response or response.status_code >= 400:\n        return 0\n\n    #    7.", "R01.1"),
    Mutant("te-isascii-guard-dropped", VAL, "    if not value.isascii():\n        raise ValueError(f\"invalid transfer-encoding header: {value!r}\")\n", "", "R01"),
    Mutant("te-and-cl-accepted", VAL, "    if te and cl:", "    if te and cl and len(cl) > 1:", "R01.2"),
    Mutant("duplicate-cl-accepted", VAL, "        if len(cl) > 1:\n            raise ValueError(f\"multiple content-length headers: {cl!r}\")\n", "", "R01.2"),
    Mutant("te-on-http10-accepted", VAL, "        if not message.is_http11:", "        if False and not message.is_http11:", "R01.2"),
    Mutant("request-gzip-te-accepted", VAL, "                if isinstance(message, Request):\n                    raise ValueError(", "                if isinstance(message, Response):\n                    raise ValueError(", "R01.2"),
    Mutant("header-name-allows-space", VAL, "rb\"^[!#$%&'*+\\-.^_`|~0-9a-zA-Z]+$\"", "rb\"^[!#$%&'*+\\-.^_`|~0-9a-zA-Z ]+$\"", "R01.2"),
    Mutant("content-length-leading-plus", VAL, 're.compile(rb"^(?:0|[1-9][0-9]*)$")', 're.compile(rb"^\\+?(?:0|[1-9][0-9]*)$")', "R01.2"),
    Mutant("content-length-unanchored", VAL, 're.compile(r"^(?:0|[1-9][0-9]*)$")', 're.compile(r"^(?:0|[1-9][0-9]*)")', "R01.2"),
    Mutant("vocab-extra-coding", VAL, '    "identity",\n]', '    "identity",\n    "br",\n]', "R01.2"),
    Mutant("request-hook-before-validation", REL, "        if (yield from self.check_invalid(True)):\n            return\n\n        if self.flow.request.method == \"CONNECT\":\n            return (yield from self.handle_connect())\n",
           "        if self.flow.request.method == \"CONNECT\":\n            return (yield from self.handle_connect())\n        if (yield from self.check_invalid(True)):\n            return\n\n", "R01.3"),
    Mutant("response-validation-dropped", REL, "        if (yield from self.check_invalid(False)):\n            return\n\n        yield HttpResponseHeadersHook(self.flow)", "        yield HttpResponseHeadersHook(self.flow)", "R01.3"),
    Mutant("invalid-response-keeps-server", REL, "                # immediately kill server connection\n                yield commands.CloseConnection(self.flow.server_conn)\n", "                pass\n", "R01.3"),
    Mutant("request-validation-ignores-option", REL, "    if validate_inbound_headers:\n        try:\n            validate_headers(request)", "    if validate_inbound_headers and request.is_http10:\n        try:\n            validate_headers(request)", "R01.3"),
    Mutant("eof-reader-for-chunked", H1, "    if expected_size is None:\n        return ChunkedReader()", "    if expected_size is None:\n        return Http10Reader()", "R01.4"),
    Mutant("client-chunk-decimal-length", H1, '                in self.request.headers.get("transfer-encoding", "").lower()\n            ):\n                raw = b"%x\\r\\n%s\\r\\n" % (len(event.data), event.data)',
           '                in self.request.headers.get("transfer-encoding", "").lower()\n            ):\n                raw = b"%d\\r\\n%s\\r\\n" % (len(event.data), event.data)', "R01.4"),
    Mutant("server-chunked-predicate-case-sensitive", H1, '                in self.response.headers.get("transfer-encoding", "").lower()\n            ):\n                raw =', '                in self.response.headers.get("transfer-encoding", "")\n            ):\n                raw =', "R01.4"),
    Mutant("F-C01c-reverted-client-empty-chunk", H1, '            if (\n                event.data\n                and "chunked"\n                in self.request.headers.get("transfer-encoding", "").lower()\n            ):',
           '            if "chunked" in self.request.headers.get("transfer-encoding", "").lower():', "R01.4"),
    Mutant("F-C01c-reverted-server-empty-chunk", H1, '            if (\n                event.data\n                and "chunked"\n                in self.response.headers.get("transfer-encoding", "").lower()\n            ):',
           '            if "chunked" in self.response.headers.get("transfer-encoding", "").lower():', "R01.4"),
    Mutant("server-terminator-for-head", H1, '                self.request.method.upper() != "HEAD"\n                and "chunked"', '                "chunked"', "R01.4"),
    Mutant("server-parse-error-keeps-reading", H1, "                    self.state = self.done\n                    return\n                yield ReceiveHttp(\n                    RequestHeaders(", "                    return\n                yield ReceiveHttp(\n                    RequestHeaders(", "R01.5"),
    Mutant("client-parse-error-no-close", H1, "                except ValueError as e:\n                    yield commands.CloseConnection(self.conn)\n                    yield ReceiveHttp(\n                        ResponseProtocolError(", "                except ValueError as e:\n                    yield ReceiveHttp(\n                        ResponseProtocolError(", "R01.5"),
]
