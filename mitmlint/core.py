"""mitmlint core: findings, evidence, known-findings, run wrapper.

Nothing in here imports or executes code from the analysed repository.
"""

from __future__ import annotations

import ast
import json
import os
import re
import time
import traceback
from dataclasses import dataclass, field
from pathlib import Path

VERIF = Path(__file__).resolve().parent.parent
DEFAULT_REPO = Path(os.environ.get("MITMLINT_REPO", "/repo"))


class AnalysisError(Exception):
    """An anchor vanished / a construct is outside what a rule models. Exit 2, never a verdict."""


def norm(node_or_text) -> str:
    """Normalised source text of a construct (position independent, whitespace independent)."""
    if isinstance(node_or_text, ast.AST):
        text = ast.unparse(node_or_text)
    else:
        text = str(node_or_text)
    text = re.sub(r"\s+", " ", text).strip()
    if len(text) > 160:
        text = text[:157] + "..."
    return text


@dataclass
class Finding:
    prop: str
    rule: str
    file: str
    func: str
    construct: str
    line: int
    reason: str
    detail: dict = field(default_factory=dict)

    @property
    def key(self) -> str:
        return f"{self.rule}|{self.file}|{self.func}|{self.construct}"

    def text(self) -> str:
        return f"{self.file}:{self.line}: {self.rule} [{self.func}] {self.construct} — {self.reason}"


class Ctx:
    """Per-run context handed to a property module's ``check(ctx)``."""

    def __init__(self, prop: str, model, tier: str = "quick", quiet: bool = False):
        self.prop = prop
        self.model = model
        self.tier = tier
        self.quiet = quiet
        self.findings: list[Finding] = []
        self.instances: dict[str, list[str]] = {}
        self.obligations = 0
        self.discharged = 0
        self.samples: list = []
        self.notes: list[str] = []
        self.assumptions: list[str] = []
        self.trusted: list[str] = []
        self.cells = 0
        self.paths = 0
        self.functions: set[str] = set()
        self.rules: dict[str, str] = {}
        self.exhaustive: bool | None = None  # set True by a module only when a finite space was enumerated completely
        self.bounds: list[str] = []  # stated bounds (loop unrolling, sample domains)
        self.deferred: list[str] = []  # AnalysisErrors of guarded rules: reported (exit 2) only if no violation is found

    # -- declaring rules -------------------------------------------------------------------------
    def rule(self, rid: str, text: str) -> None:
        self.rules[rid] = text

    # -- bookkeeping -----------------------------------------------------------------------------
    def instance(self, rule: str, desc: str) -> None:
        self.instances.setdefault(rule, []).append(desc)

    def expect_instances(self, rule: str, minimum: int) -> None:
        n = len(self.instances.get(rule, []))
        if n < minimum:
            # deferred: the remaining rules still run; a violation found elsewhere takes precedence over this exit-2 condition
            self.deferred.append(
                f"{rule}: matched {n} instances, fewer than the {minimum} confirmed by hand "
                f"(anchor moved or changed shape): {str(self.instances.get(rule, []))[:400]}"
            )

    def func(self, file: str, qual: str) -> ast.AST:
        self.functions.add(f"{file}::{qual}")
        return self.model.func(file, qual)

    def sample(self, obj) -> None:
        if len(self.samples) < 12:
            self.samples.append(obj)

    def note(self, s: str) -> None:
        self.notes.append(s)

    def assume(self, s: str) -> None:
        if s not in self.assumptions:
            self.assumptions.append(s)

    def trust(self, s: str) -> None:
        if s not in self.trusted:
            self.trusted.append(s)

    def require(self, cond, msg: str):
        if not cond:
            raise AnalysisError(msg)
        return cond

    def guard(self, fn, *args, **kwargs):
        """Run one rule; an AnalysisError inside it is deferred so that the property's other rules still run.
        A violation found by another rule takes precedence (exit 1); otherwise the run ends as ANALYSIS-ERROR (exit 2)."""
        try:
            return fn(*args, **kwargs)
        except AnalysisError as e:
            self.deferred.append(str(e))
            return None

    # -- verdicts --------------------------------------------------------------------------------
    def ok(self, rule: str, desc: str = "") -> None:
        self.obligations += 1
        self.discharged += 1
        if desc:
            self.instance(rule, desc)

    def check(self, cond, rule: str, where, construct, reason: str, desc: str = "", **detail) -> bool:
        """One obligation. ``where`` = (file, qualname, node-or-line)."""
        if cond:
            self.ok(rule, desc or norm(construct))
            return True
        self.fail(rule, where, construct, reason, **detail)
        return False

    def fail(self, rule: str, where, construct, reason: str, **detail) -> None:
        self.obligations += 1
        file, qual, at = where
        line = getattr(at, "lineno", at if isinstance(at, int) else 0) or 0
        f = Finding(self.prop, rule, file, qual, norm(construct), line, reason, detail)
        if all(g.key != f.key for g in self.findings):
            self.findings.append(f)
        self.instance(rule, "VIOLATED " + norm(construct))


# ---------------------------------------------------------------------------------------------------
# known findings


def load_known() -> dict:
    p = VERIF / "known_findings.json"
    if not p.exists():
        return {"findings": [], "fixed": []}
    return json.loads(p.read_text())


def split_known(prop: str, findings: list[Finding]):
    known = [k for k in load_known().get("findings", []) if k["property"] == prop]
    listed, new = [], []
    for f in findings:
        hit = next((k for k in known if k["key"] == f.key), None)
        (listed if hit else new).append((f, hit))
    return listed, new


# ---------------------------------------------------------------------------------------------------
# evidence


def write_evidence(ctx: Ctx, wall: float, violations: int, extra: dict | None = None, outdir: Path | None = None) -> Path:
    seed = int(os.environ.get("VERIF_SEED", "0") or 0)
    n_inst = sum(len(v) for v in ctx.instances.values())
    distinct = len({(r, d) for r, v in ctx.instances.items() for d in v})
    cov = {
        "explanation": "Static analysis of /repo's current source (nothing executed). Rules applied: "
        + " | ".join(f"{k}: {v}" for k, v in sorted(ctx.rules.items())),
        "evaluations": max(1, n_inst + ctx.cells + ctx.paths),
        "distinct_nontrivial": max(0, distinct),
        "rule": "one evaluation = one rule instance (call site / path / table cell / registry row) examined; "
        "distinct_nontrivial = distinct (rule, construct) instances that reached an obligation",
        "obligations": ctx.obligations,
        "discharged": ctx.discharged,
        "table_cells": ctx.cells,
        "paths": ctx.paths,
        "rule_instances": {k: len(v) for k, v in sorted(ctx.instances.items())},
        "functions_analysed": sorted(ctx.functions),
        "samples": ctx.samples or [{"rule": k, "instance": v[0]} for k, v in list(ctx.instances.items())[:6] if v],
        "trusted_base": ["CPython ast"] + ctx.trusted,
        "notes": ctx.notes,
        "bounds": ctx.bounds,
    }
    if ctx.exhaustive:
        cov["exhaustive"] = True
    if not cov["samples"]:
        cov["samples"] = ["(no instance)"]
    if extra:
        cov.update(extra)
    ev = {
        "property_id": ctx.prop,
        "tier": ctx.tier,
        "seed": seed,
        "level": "other",
        "coverage": cov,
        "assumptions": ctx.assumptions
        + ["library behaviour named in trusted_base", "decides the listed structural clauses, not the behaviour"],
        "wall_s": round(wall, 3),
        "violations": violations,
    }
    outdir = outdir or (VERIF / "evidence")
    outdir.mkdir(exist_ok=True)
    p = outdir / f"{ctx.prop}.json"
    p.write_text(json.dumps(ev, indent=1, default=str) + "\n")
    return p


def write_replay(f: Finding) -> Path:
    d = VERIF / "replays"
    d.mkdir(exist_ok=True)
    safe = re.sub(r"[^A-Za-z0-9_.-]+", "_", f"{f.prop}-{f.rule}-{f.func}-{f.construct}")[:120]
    p = d / f"{safe}.json"
    p.write_text(
        json.dumps(
            {
                "property": f.prop,
                "rule": f.rule,
                "key": f.key,
                "file": f.file,
                "function": f.func,
                "line": f.line,
                "construct": f.construct,
                "reason": f.reason,
                "detail": f.detail,
            },
            indent=1,
            default=str,
        )
        + "\n"
    )
    return p


# ---------------------------------------------------------------------------------------------------
# performance only: keep the interpreters' deep recursion inside ONE CPython data-stack chunk


def _flat(_f, *_a, **_k):
    return _f(*_a, **_k)


try:  # CPython: a frame of ~540 kB makes the VM allocate a 1 MB data-stack chunk with ~480 kB of room behind this frame
    _flat.__code__ = _flat.__code__.replace(co_stacksize=68000)
except Exception:  # pragma: no cover - other implementations: a plain call
    pass


def flat_stack(f, *args, **kwargs):
    """Call ``f`` so that the deep, hot recursion of the AST interpreters below it never straddles a boundary of CPython's 16 kB
    frame-stack chunks (a hot call site sitting on such a boundary costs an mmap/munmap pair per call: measured 0.7 s -> 14 s for the
    same work, depending only on the caller's own stack depth).  Semantics are those of ``f(*args, **kwargs)``."""
    return _flat(f, *args, **kwargs)
