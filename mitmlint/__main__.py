"""mitmlint CLI:  python -m mitmlint <PROP> [--tier quick|thorough] [--repo DIR] [--replay FILE]

exit 0  property clauses held on everything analysed (KNOWN-FINDING lines possible)
exit 1  VIOLATION property=<id> replay=<path>      (a violation not listed in known_findings.json)
exit 2  ANALYSIS-ERROR property=<id> ...            (anchor vanished / unmodelled shape / self-test miss)
"""

from __future__ import annotations

import argparse
import importlib
import json
import os
import sys
import time
import traceback
from pathlib import Path

from .core import AnalysisError
from .core import Ctx
from .core import DEFAULT_REPO
from .core import flat_stack
from .core import split_known
from .core import VERIF
from .core import write_evidence
from .core import write_replay
from .model import Model


def load_prop(pid: str):
    return importlib.import_module(f"mitmlint.props.{pid}")


def run_check(pid: str, repo: Path, tier: str, overrides=None, quiet=True) -> Ctx:
    mod = load_prop(pid)
    model = Model(repo, overrides)
    ctx = Ctx(pid, model, tier, quiet)
    flat_stack(mod.check, ctx)
    return ctx


def main(argv=None) -> int:
    ap = argparse.ArgumentParser(prog="mitmlint")
    ap.add_argument("prop")
    ap.add_argument("--tier", default=os.environ.get("VERIF_TIER") or "quick", choices=["quick", "thorough"])
    ap.add_argument("--repo", default=str(DEFAULT_REPO))
    ap.add_argument("--replay", default=None)
    ap.add_argument("--no-evidence", action="store_true")
    ap.add_argument("--evidence-dir", default=None)
    ap.add_argument("--jobs", type=int, default=min(16, os.cpu_count() or 4))
    args = ap.parse_args(argv)
    pid = args.prop
    repo = Path(args.repo)
    t0 = time.time()
    try:
        ctx = run_check(pid, repo, args.tier, quiet=False)
    except AnalysisError as e:
        print(f"ANALYSIS-ERROR property={pid} {e}")
        return 2
    except Exception:
        traceback.print_exc()
        print(f"ANALYSIS-ERROR property={pid} internal error in the checker (traceback above)")
        return 2

    for f in ctx.findings:
        print(f.text())
    listed, new = split_known(pid, ctx.findings)

    if args.replay:
        want = json.loads(Path(args.replay).read_text())["key"]
        hit = [f for f in ctx.findings if f.key == want]
        if hit:
            print(f"VIOLATION property={pid} replay={args.replay}")
            return 1
        print(f"replay: finding {want!r} is not present on this tree")
        return 0

    extra = {}
    rc = 0
    selftest_msgs = []
    if args.tier == "thorough":
        from .selftest import run_mutants

        res = run_mutants(pid, repo, args.jobs)
        extra.update(
            {
                "mutants_run": res["run"],
                "mutants_caught": res["caught"],
                "mutants_stale": res["stale"],
                "mutants": res["detail"],
            }
        )
        for m in res["missed"]:
            selftest_msgs.append(f"self-test mutant not caught: {m}")
        for m in res["stale_names"]:
            print(f"SELFTEST-STALE property={pid} mutant {m}: anchored text not present on this tree (skipped)")

    wall = time.time() - t0
    if not args.no_evidence:
        write_evidence(ctx, wall, len(new), extra, Path(args.evidence_dir) if args.evidence_dir else None)

    n_inst = sum(len(v) for v in ctx.instances.values())
    print(
        f"mitmlint {pid} tier={args.tier}: {len(ctx.rules)} rules, {n_inst} instances, "
        f"{ctx.obligations} obligations ({ctx.discharged} discharged), {ctx.cells} table cells, {ctx.paths} paths, "
        f"{len(ctx.functions)} functions, {wall:.2f}s"
    )
    for f, k in listed:
        print(f"KNOWN-FINDING: property={pid} {f.rule} {f.file}::{f.func} {f.construct} — {k.get('what', f.reason)}")
    if new:
        for f, _ in new:
            p = write_replay(f)
            print(f"VIOLATION property={pid} replay={p}")
        return 1
    if ctx.deferred:
        for m in ctx.deferred:
            print(f"ANALYSIS-ERROR property={pid} {m}")
        return 2
    if selftest_msgs:
        for m in selftest_msgs:
            print(f"ANALYSIS-ERROR property={pid} {m}")
        return 2
    return rc


if __name__ == "__main__":
    code = main()
    sys.stdout.flush()
    os._exit(code)
