"""E7: regular-expression language checks (no matching engine of `re` is run on data).

`re._parser.parse` gives the pattern's AST; it is turned into a Thompson NFA over code points 0..255 (plus one
class for everything above, which no transition of the patterns checked here accepts unless it is ANY / a negated
set / a category).  Supports language membership of a witness, and equivalence / inclusion of two patterns by
subset construction over the partition of the alphabet induced by both patterns.

Unsupported constructs (back-references, look-around, conditional groups) raise AnalysisError.
Anchors ^ and $ are treated as empty (use for fully anchored patterns; `$` also matching before a trailing
newline is excluded by restricting comparisons to strings without CR/LF, stated by the callers).
"""

from __future__ import annotations

import re
from re import _constants as sc  # type: ignore[attr-defined]
from re import _parser as sp  # type: ignore[attr-defined]

from .core import AnalysisError

MAXCP = 256  # 0..255 are individual symbols, 256 stands for "any code point > 255"
ALL = frozenset(range(MAXCP + 1))


def _category(cat, ascii_only: bool) -> frozenset:
    digits = frozenset(range(0x30, 0x3A))
    space = frozenset([9, 10, 11, 12, 13, 32] + ([] if ascii_only else [0x1C, 0x1D, 0x1E, 0x1F, 0x85, 0xA0]))
    word = frozenset(list(range(0x30, 0x3A)) + list(range(0x41, 0x5B)) + list(range(0x61, 0x7B)) + [0x5F])
    if not ascii_only:
        word = word | frozenset(c for c in range(128, 256) if chr(c).isalnum()) | frozenset([MAXCP])
        space_hi = frozenset()
        digits_hi = frozenset()
    name = str(cat)
    table = {
        "CATEGORY_DIGIT": digits,
        "CATEGORY_NOT_DIGIT": ALL - digits,
        "CATEGORY_SPACE": space,
        "CATEGORY_NOT_SPACE": ALL - space,
        "CATEGORY_WORD": word,
        "CATEGORY_NOT_WORD": ALL - word,
    }
    if name not in table:
        raise AnalysisError(f"regex category {name} not modelled")
    return table[name]


class NFA:
    def __init__(self):
        self.n = 0
        self.eps: dict[int, set] = {}
        self.trans: dict[int, list] = {}  # state -> [(frozenset symbols, target)]
        self.start = self.new()
        self.accept = self.new()

    def new(self) -> int:
        self.n += 1
        return self.n - 1

    def add_eps(self, a, b):
        self.eps.setdefault(a, set()).add(b)

    def add(self, a, symbols: frozenset, b):
        self.trans.setdefault(a, []).append((symbols, b))

    def closure(self, states) -> frozenset:
        stack = list(states)
        seen = set(states)
        while stack:
            s = stack.pop()
            for t in self.eps.get(s, ()):
                if t not in seen:
                    seen.add(t)
                    stack.append(t)
        return frozenset(seen)

    def step(self, states, sym: int) -> frozenset:
        out = set()
        for s in states:
            for symbols, t in self.trans.get(s, ()):
                if sym in symbols:
                    out.add(t)
        return self.closure(out)

    def accepts(self, text) -> bool:
        cur = self.closure({self.start})
        for ch in text:
            cp = ch if isinstance(ch, int) else ord(ch)
            cur = self.step(cur, cp if cp < MAXCP else MAXCP)
            if not cur:
                return False
        return self.accept in cur

    def symbol_sets(self):
        return {symbols for lst in self.trans.values() for symbols, _ in lst}


def _fold(symbols: frozenset, ignorecase: bool) -> frozenset:
    if not ignorecase:
        return symbols
    out = set(symbols)
    for c in symbols:
        if c < 128:
            ch = chr(c)
            out.add(ord(ch.lower()))
            out.add(ord(ch.upper()))
    return frozenset(out)


def _set_of(items, ascii_only, ignorecase) -> frozenset:
    negate = False
    acc: set = set()
    for op, av in items:
        if op is sc.NEGATE:
            negate = True
        elif op is sc.LITERAL:
            acc.add(av if av < MAXCP else MAXCP)
        elif op is sc.RANGE:
            lo, hi = av
            acc.update(range(lo, min(hi, MAXCP - 1) + 1))
            if hi >= MAXCP:
                acc.add(MAXCP)
        elif op is sc.CATEGORY:
            acc |= _category(av, ascii_only)
        else:
            raise AnalysisError(f"regex set item {op} not modelled")
    s = _fold(frozenset(acc), ignorecase)
    return (ALL - s) if negate else s


def _build(nfa: NFA, items, a: int, b: int, ascii_only: bool, ignorecase: bool, dotall: bool):
    """Connect state a to state b through the sequence ``items``."""
    cur = a
    items = list(items)
    for idx, (op, av) in enumerate(items):
        nxt = b if idx == len(items) - 1 else nfa.new()
        if op is sc.LITERAL:
            nfa.add(cur, _fold(frozenset([av if av < MAXCP else MAXCP]), ignorecase), nxt)
        elif op is sc.NOT_LITERAL:
            nfa.add(cur, ALL - _fold(frozenset([av if av < MAXCP else MAXCP]), ignorecase), nxt)
        elif op is sc.ANY:
            nfa.add(cur, ALL if dotall else ALL - frozenset([10]), nxt)
        elif op is sc.IN:
            nfa.add(cur, _set_of(av, ascii_only, ignorecase), nxt)
        elif op is sc.BRANCH:
            for alt in av[1]:
                s, e = nfa.new(), nfa.new()
                nfa.add_eps(cur, s)
                _build(nfa, alt, s, e, ascii_only, ignorecase, dotall)
                nfa.add_eps(e, nxt)
        elif op is sc.SUBPATTERN:
            sub = av[3]
            s, e = nfa.new(), nfa.new()
            nfa.add_eps(cur, s)
            _build(nfa, sub, s, e, ascii_only, ignorecase, dotall)
            nfa.add_eps(e, nxt)
        elif op in (sc.MAX_REPEAT, sc.MIN_REPEAT) or str(op) == "POSSESSIVE_REPEAT":
            lo, hi, sub = av
            prev = cur
            for _ in range(lo):
                mid = nfa.new()
                _build(nfa, sub, prev, mid, ascii_only, ignorecase, dotall)
                prev = mid
            if hi is sc.MAXREPEAT or hi == sc.MAXREPEAT:
                loop_s, loop_e = nfa.new(), nfa.new()
                nfa.add_eps(prev, loop_s)
                _build(nfa, sub, loop_s, loop_e, ascii_only, ignorecase, dotall)
                nfa.add_eps(loop_e, loop_s)
                nfa.add_eps(loop_s, nxt) if False else None
                nfa.add_eps(prev, nxt)
                nfa.add_eps(loop_e, nxt)
            else:
                nfa.add_eps(prev, nxt)
                for _ in range(hi - lo):
                    mid = nfa.new()
                    _build(nfa, sub, prev, mid, ascii_only, ignorecase, dotall)
                    nfa.add_eps(mid, nxt)
                    prev = mid
        elif op is sc.AT:
            nfa.add_eps(cur, nxt)
        else:
            raise AnalysisError(f"regex construct {op} not modelled")
        cur = nxt
    if not items:
        nfa.add_eps(a, b)


def parse(pattern, flags: int = 0):
    try:
        return sp.parse(pattern, flags)
    except re.error as e:
        raise AnalysisError(f"regex does not parse: {pattern!r}: {e}")


def nfa_of(pattern=None, flags: int = 0, items=None) -> NFA:
    """NFA of a whole pattern (``pattern``) or of a sub-sequence of parsed items (``items``)."""
    is_bytes = isinstance(pattern, (bytes, bytearray))
    if items is None:
        tree = parse(pattern, flags)
        items = list(tree)
        flags = tree.state.flags | flags
    ascii_only = is_bytes or bool(flags & re.ASCII)
    nfa = NFA()
    _build(nfa, items, nfa.start, nfa.accept, ascii_only, bool(flags & re.IGNORECASE), bool(flags & re.DOTALL))
    return nfa


def _partition(sets, universe=ALL):
    """Coarsest partition of the universe such that every set is a union of blocks; returns representatives."""
    blocks = [set(universe)]
    for s in sets:
        nb = []
        for b in blocks:
            i, o = b & s, b - s
            if i:
                nb.append(i)
            if o:
                nb.append(o)
        blocks = nb
    return [min(b) for b in blocks]


def compare(a: NFA, b: NFA, exclude=frozenset([10, 13])):
    """Returns (only_in_a, only_in_b): shortest witnesses (lists of code points) or None."""
    universe = ALL - exclude
    reps = _partition(list(a.symbol_sets() | b.symbol_sets()), universe)
    start = (a.closure({a.start}), b.closure({b.start}))
    seen = {start: None}
    queue = [start]
    only_a = only_b = None
    while queue:
        nxt_q = []
        for node in queue:
            sa, sb = node
            ia, ib = a.accept in sa, b.accept in sb
            if ia != ib:
                w = []
                n = node
                while seen[n] is not None:
                    n, sym = seen[n]
                    w.append(sym)
                w.reverse()
                if ia and only_a is None:
                    only_a = w
                if ib and only_b is None:
                    only_b = w
                if only_a is not None and only_b is not None:
                    return only_a, only_b
            for r in reps:
                t = (a.step(sa, r), b.step(sb, r))
                if t not in seen:
                    seen[t] = (node, r)
                    nxt_q.append(t)
        queue = nxt_q
        if len(seen) > 200000:
            raise AnalysisError("regex comparison exceeded 200000 product states")
    return only_a, only_b


def show(witness) -> str:
    if witness is None:
        return "-"
    return repr(bytes(c if c < 256 else 0x3F for c in witness))


def find_call_patterns(fn_node, funcs=("compile", "search", "match", "fullmatch", "sub")):
    """[(call, pattern_value, flags_int)] for re.<func>(<literal>, ...) calls inside ``fn_node``."""
    import ast

    out = []
    for n in ast.walk(fn_node):
        if isinstance(n, ast.Call) and isinstance(n.func, ast.Attribute) and isinstance(n.func.value, ast.Name) and n.func.value.id == "re" and n.func.attr in funcs:
            if n.args and isinstance(n.args[0], ast.Constant) and isinstance(n.args[0].value, (str, bytes)):
                flags = 0
                rest = list(n.args[1:]) + [k.value for k in n.keywords if k.arg == "flags"]
                for a in rest:
                    for x in ast.walk(a):
                        if isinstance(x, ast.Attribute) and isinstance(x.value, ast.Name) and x.value.id == "re" and x.attr.isupper():
                            flags |= int(getattr(re, x.attr, 0))
                out.append((n, n.args[0].value, flags))
    return out
