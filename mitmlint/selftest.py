"""E8: every rule is tested both ways.

A mutant is an edit of one repository file applied IN MEMORY (Model overrides) - nothing is written to
/repo - after which the property's check must report a finding of the expected rule.
Mutants whose anchor text is absent on the analysed tree are reported as stale and skipped.
"""

from __future__ import annotations

import importlib
import multiprocessing as mp
from dataclasses import dataclass
from pathlib import Path

from .core import flat_stack
from .core import AnalysisError
from .core import Ctx
from .model import Model


@dataclass
class Mutant:
    name: str
    file: str
    old: str
    new: str
    expect: str  # rule id that must fire (prefix match), e.g. "R07.2"
    count: int = 1  # how many times ``old`` must occur (all are replaced)


def _one(args):
    pid, repo, m, base_keys = args
    try:
        src = (Path(repo) / m.file).read_text(encoding="utf-8")
    except FileNotFoundError:
        return m.name, "stale", ""
    if src.count(m.old) != m.count:
        return m.name, "stale", f"anchor text occurs {src.count(m.old)}x, expected {m.count}"
    new = src.replace(m.old, m.new)
    mod = importlib.import_module(f"mitmlint.props.{pid}")
    try:
        model = Model(Path(repo), {m.file: new})
        ctx = Ctx(pid, model, "quick", True)
        flat_stack(mod.check, ctx)
    except AnalysisError as e:
        # an anchor destroyed by the mutant is a detection too (fail-closed), but weaker: report it
        return m.name, "error", str(e)
    except Exception as e:  # pragma: no cover
        return m.name, "crash", repr(e)
    # only findings that the unmutated tree does not already have count as detection
    rules = sorted({f.rule for f in ctx.findings if f.key not in base_keys})
    if any(r.startswith(m.expect) for r in rules):
        return m.name, "caught", ",".join(rules)
    if ctx.deferred and not rules:
        return m.name, "error", "; ".join(ctx.deferred)[:300]
    return m.name, "missed", ",".join(rules)


def run_mutants(pid: str, repo: Path, jobs: int = 16) -> dict:
    mod = importlib.import_module(f"mitmlint.props.{pid}")
    mutants = list(getattr(mod, "MUTANTS", []))
    res = {"run": 0, "caught": 0, "stale": 0, "missed": [], "stale_names": [], "detail": []}
    if not mutants:
        return res
    try:
        base = Ctx(pid, Model(Path(repo)), "quick", True)
        flat_stack(mod.check, base)
        base_keys = frozenset(f.key for f in base.findings)
    except AnalysisError:
        base_keys = frozenset()
    work = [(pid, str(repo), m, base_keys) for m in mutants]
    if jobs > 1 and len(work) > 2:
        with mp.get_context("fork").Pool(min(jobs, len(work))) as pool:
            results = pool.map(_one, work)
    else:
        results = [_one(w) for w in work]
    for name, status, info in results:
        res["detail"].append({"mutant": name, "status": status, "info": info})
        if status == "stale":
            res["stale"] += 1
            res["stale_names"].append(name)
            continue
        res["run"] += 1
        if status == "caught":
            res["caught"] += 1
        else:
            res["missed"].append(f"{name} ({status}: {info})")
    return res
