"""Per-property registry: what is claimed, how strongly, by which technique (source for MANIFEST.json)."""

NOT_APPLICABLE = {
    "C34": "value-level round-trip through urllib.parse, the cookie scanner and the multipart splitter over all pair lists; "
    "no structural clause is both necessary and decidable without enumerating inputs (DESIGN.md section 6)",
    "C51": "string-rewriting identity over all byte strings (repr, two look-behind regexes, codecs.escape_decode); needs a solver or "
    "input enumeration, which are other technique families (DESIGN.md section 6)",
}


# Properties whose module has been reviewed and armed by the lead (only these are claimed in MANIFEST.json).
ARMED = ["C01", "C03", "C07", "C11", "C19", "C45"]
