"""Per-property registry: what is claimed, how strongly, by which technique (source for MANIFEST.json)."""

NOT_APPLICABLE = {
    "C34": "value-level round-trip through urllib.parse, the cookie scanner and the multipart splitter over all pair lists; "
    "no structural clause is both necessary and decidable without enumerating inputs (DESIGN.md section 6)",
    "C51": "string-rewriting identity over all byte strings (repr, two look-behind regexes, codecs.escape_decode); needs a solver or "
    "input enumeration, which are other technique families (DESIGN.md section 6)",
}

REGISTRY = {
    "C03": {
        "strength": "partial",
        "technique": "typestate exploration of the model extracted from HttpStream's AST (path-effect enumeration, helper inlining) + predicate table",
        "claim": "every reachable transition of the extracted HttpStream model (all state functions x all HTTP events the environment "
        "automaton can deliver, addon effects havocked at hooks) respects: requestheaders first; never response and error; at most once / "
        "ordered hooks; terminal flows have exactly one outcome and are not live; close handling yields protocol errors.",
        "note": "Model = over-approximation extracted from source on every run; named refinements are printed in the evidence. "
        "Loops unrolled once; lower layers' event order is an environment automaton stated in the evidence.",
    },
}
