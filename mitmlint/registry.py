"""Per-property registry: what is claimed, how strongly, by which technique (source for MANIFEST.json)."""

NOT_APPLICABLE = {
    "C34": "value-level round-trip through urllib.parse, the cookie scanner and the multipart splitter over all pair lists; "
    "no structural clause is both necessary and decidable without enumerating inputs (DESIGN.md section 6)",
    "C51": "string-rewriting identity over all byte strings (repr, two look-behind regexes, codecs.escape_decode); needs a solver or "
    "input enumeration, which are other technique families (DESIGN.md section 6)",
}


# Properties whose module has been reviewed and armed by the lead (only these are claimed in MANIFEST.json).
ARMED = ["C01", "C02", "C03", "C04", "C05", "C06", "C07", "C08", "C09", "C10", "C11", "C12", "C13", "C14", "C15", "C16", "C17", "C18", "C19", "C20", "C21", "C22", "C23", "C24", "C25", "C26", "C27", "C28", "C29", "C30", "C31", "C32", "C33", "C35", "C36", "C37", "C38", "C39", "C40", "C41", "C42", "C43", "C44", "C45", "C46", "C47", "C48", "C49", "C50", "C52", "C53", "C54"]
