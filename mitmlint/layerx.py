"""E3 (typestate): model extraction + exhaustive exploration of small sans-io layers.

``LayerSpec`` specialises the path engine for a layer class:
  * events of the layer (`RequestHeaders`, `DataReceived`, ...) are abstract values ('ev', Kind, attrs)
  * ``isinstance(event, X)`` is decided through the class hierarchy read from the source
  * ``self.<method>(...)`` calls are inlined by abstract execution (MRO lookup in the source),
    including calls through tracked state attributes (``yield from self.client_state(event)``)
  * ``@expect(A, B)`` prunes paths that would trip the decorator's assertion (not behaviours of the layer)

``explore`` runs the layer's entry handler for every (abstract state, offered event) to a fix-point and
feeds each transition's trace to a rule monitor.
"""

from __future__ import annotations

import ast
from collections import deque

from .core import AnalysisError
from .core import norm
from .model import attr_chain
from .model import eval_order
from .model import last_attr
from .paths import C
from .paths import class_names
from .paths import Engine
from .paths import is_const
from .paths import R
from .paths import Spec
from .paths import State
from .paths import UNKNOWN


def EV(kind: str, **attrs):
    return ("ev", kind, tuple(sorted(attrs.items())))


def is_ev(v):
    return isinstance(v, tuple) and len(v) == 3 and v[0] == "ev"


class LayerSpec(Spec):
    max_depth = 8
    unroll = 1
    no_inline: tuple = ("handle_event",)
    dispatch_attrs: tuple = ()  # tracked attrs that hold bound methods and are *called*

    def __init__(self, model, rel: str, cls: str):
        self.model = model
        self.rel = rel
        self.cls = cls
        self._isa_cache: dict = {}

    # ---- class relations read from source
    def class_ancestors(self, name: str) -> set[str]:
        if name in self._isa_cache:
            return self._isa_cache[name]
        out = {name}
        # search the anchored module's imports and the module itself
        mod = self.model.module(self.rel)
        r = self.model.resolve_name(mod, ast.Name(id=name)) if name.isidentifier() else None
        if r is None:
            for m in self.extra_modules():
                d = m.get(name)
                if isinstance(d, ast.ClassDef):
                    r = (m, d)
                    break
        if r is not None and isinstance(r[1], ast.ClassDef):
            m, c = r
            for mm, cc in self.model.mro(m.rel, getattr(c, "_qual", c.name)):
                out.add(cc.name)
                for b in cc.bases:
                    out.add(last_attr(b))
        self._isa_cache[name] = out
        return out

    def extra_modules(self):
        return []

    def ev_isa(self, kind: str, cls_name: str) -> bool:
        return cls_name in self.class_ancestors(kind)

    # ---- values
    def value(self, expr, st, depth):
        if isinstance(expr, ast.Call):
            name = last_attr(expr.func)
            if name and name[0].isupper() and self.is_event_class(name):
                attrs = {}
                for k in expr.keywords:
                    if k.arg:
                        v = Spec.value(self, k.value, st, depth)
                        if is_const(v):
                            attrs[k.arg] = v[1]
                return EV(name, **attrs)
            return Spec.value(self, expr, st, depth)
        if isinstance(expr, ast.Attribute) and isinstance(expr.value, ast.Name):
            base = st.get(f"{depth}:{expr.value.id}")
            if is_ev(base):
                for k, v in base[2]:
                    if k == expr.attr:
                        return C(v)
                return UNKNOWN
        return Spec.value(self, expr, st, depth)

    def is_event_class(self, name: str) -> bool:
        anc = self.class_ancestors(name)
        return "Event" in anc or "HttpEvent" in anc

    def decide_extra(self, cond, st, depth):
        if isinstance(cond, ast.Call) and isinstance(cond.func, ast.Name) and cond.func.id == "isinstance" and len(cond.args) == 2:
            v = self.value(cond.args[0], st, depth)
            if is_ev(v):
                names = class_names(cond.args[1])
                if not names:
                    return None
                return any(self.ev_isa(v[1], n) for n in names)
        return None

    # ---- inlining
    def inline(self, call, st, depth):
        f = call.func
        if isinstance(f, ast.Attribute) and isinstance(f.value, ast.Name) and f.value.id == "self":
            name = f.attr
            if name in self.no_inline:
                return self.inline_special(call, st, depth)
            ch = f"self.{name}"
            if ch in self.tracked and ch in self.dispatch_attrs:
                v = st.get(ch)
                if v[0] == "r" and v[1].startswith("self."):
                    name = v[1][5:]
                else:
                    raise AnalysisError(f"dispatch through {ch} with unknown target at {norm(call)}: {v}")
            r = self.model.method(self.rel, self.cls, name)
            if r is None:
                return None
            return r[1]
        return None

    def inline_special(self, call, st, depth):
        return None

    def admit(self, fn, call, st, depth) -> bool:
        """@expect pruning."""
        for d in fn.decorator_list:
            if isinstance(d, ast.Call) and last_attr(d.func) == "expect":
                if not call.args:
                    return True
                v = self.value(call.args[0], st, depth)
                if not is_ev(v):
                    return True
                names = [last_attr(a) for a in d.args]
                return any(self.ev_isa(v[1], n) for n in names)
        return True


class Monitor:
    """Rule monitor over transitions. ``step`` returns the new monitor value (hashable)."""

    init = ()

    def step(self, mon, event, trace, final_env: dict, report):
        return mon

    def offers(self, env: dict, mon):
        """Events the environment may deliver in this abstract state."""
        return []


def explore(spec: LayerSpec, entry_fn, init_env: dict, monitor: Monitor, max_states: int = 20000):
    """Breadth-first fix-point over (env, mon). Returns dict with counts and violations."""
    eng = Engine(spec)
    start = (tuple(sorted(init_env.items())), monitor.init)
    seen = {start: None}
    q = deque([start])
    transitions = 0
    violations = []
    samples = []

    def history(node):
        h = []
        while node is not None and seen.get(node) is not None:
            parent, ev, tr = seen[node]
            h.append((ev[1], [e for e in tr]))
            node = parent
        h.reverse()
        return h

    while q:
        node = q.popleft()
        env, mon = node
        for ev in monitor.offers(dict(env), mon):
            st0 = State((), dict(env)).set("0:event", ev)
            finals = eng.finals(entry_fn, st0)
            for fs in finals:
                transitions += 1
                fenv = {k: v for k, v in fs.env if not (k[:1].isdigit() and ":" in k) and not k.startswith("$")}
                exc = fs.get("$exc")
                msgs = []
                mon2 = monitor.step(mon, ev, fs.trace, fenv, msgs.append, exc[1] if is_const(exc) else None)
                for m in msgs:
                    violations.append({"message": m, "history": history(node) + [(ev[1], list(fs.trace))]})
                if mon2 is None:
                    continue
                nxt = (tuple(sorted(fenv.items())), mon2)
                if nxt not in seen:
                    seen[nxt] = (node, ev, fs.trace)
                    q.append(nxt)
                    if len(samples) < 8 and fs.trace:
                        samples.append({"event": ev[1], "trace": [list(map(str, e)) if isinstance(e, tuple) else e for e in fs.trace]})
                    if len(seen) > max_states:
                        raise AnalysisError(f"layer exploration exceeded {max_states} abstract states")
    return {
        "states": len(seen),
        "transitions": transitions,
        "violations": violations,
        "samples": samples,
        "pruned": eng.pruned,
        "forks": eng.forks,
        "truncated": eng.truncated,
        "inlined": sorted(eng.inlined),
    }
