"""E3 (typestate): model extraction + exhaustive exploration of small sans-io layers.

``LayerSpec`` specialises the path engine for a layer class:
  * events of the layer (`RequestHeaders`, `DataReceived`, ...) are abstract values ('ev', Kind, attrs)
  * ``isinstance(event, X)`` is decided through the class hierarchy read from the source
  * ``self.<method>(...)`` calls are inlined by abstract execution (MRO lookup in the source),
    including calls through tracked state attributes (``yield from self.client_state(event)``)
  * ``@expect(A, B)`` prunes paths that would trip the decorator's assertion (not behaviours of the layer)

``explore`` runs the layer's entry handler for every (abstract state, offered event) to a fix-point and
feeds each transition's trace to a rule monitor.
"""

from __future__ import annotations

import ast
from collections import deque

from .core import AnalysisError
from .core import norm
from .model import attr_chain
from .model import eval_order
from .model import last_attr
from .paths import C
from .paths import class_names
from .paths import Engine
from .paths import is_const
from .paths import R
from .paths import Spec
from .paths import State
from .paths import UNKNOWN


def EV(kind: str, **attrs):
    return ("ev", kind, tuple(sorted(attrs.items())))


def is_ev(v):
    return isinstance(v, tuple) and len(v) == 3 and v[0] == "ev"


class LayerSpec(Spec):
    max_depth = 8
    unroll = 1
    no_inline: tuple = ("handle_event",)
    dispatch_attrs: tuple = ()  # tracked attrs that hold bound methods and are *called*
    # tracked chains that denote *objects*: the tracked value is a flag about the object (truthiness), the value of the expression is
    # a reference R(chain) - so a local / parameter bound to the object is an alias of it (`buf = self.x_buf; buf.clear()`)
    object_attrs: tuple = ()
    nullable_attrs: tuple = ()  # object_attrs that are falsy exactly when they are None
    typed_refs: dict = {}  # chain -> (class the object is an instance of, classes it is not an instance of)   (named refinement)

    def __init__(self, model, rel: str, cls: str):
        self.model = model
        self.rel = rel
        self.cls = cls
        self._isa_cache: dict = {}
        self._pure_busy: set = set()
        self._locals_cache: dict = {}
        mod = model.module(rel)
        names = set()
        for n in mod.tree.body:
            if isinstance(n, (ast.FunctionDef, ast.AsyncFunctionDef, ast.ClassDef)):
                names.add(n.name)
            elif isinstance(n, (ast.Import, ast.ImportFrom)):
                names |= {(a.asname or a.name).split(".")[0] for a in n.names}
            elif isinstance(n, (ast.Assign, ast.AnnAssign)):
                for t in n.targets if isinstance(n, ast.Assign) else [n.target]:
                    if isinstance(t, ast.Name):
                        names.add(t.id)
        self._module_names = names

    # ---- class relations read from source
    def class_ancestors(self, name: str) -> set[str]:
        if name in self._isa_cache:
            return self._isa_cache[name]
        out = {name}
        # search the anchored module's imports and the module itself
        mod = self.model.module(self.rel)
        r = self.model.resolve_name(mod, ast.Name(id=name)) if name.isidentifier() else None
        if r is None:
            for m in self.extra_modules():
                d = m.get(name)
                if isinstance(d, ast.ClassDef):
                    r = (m, d)
                    break
        if r is not None and isinstance(r[1], ast.ClassDef):
            m, c = r
            for mm, cc in self.model.mro(m.rel, getattr(c, "_qual", c.name)):
                out.add(cc.name)
                for b in cc.bases:
                    out.add(last_attr(b))
        self._isa_cache[name] = out
        return out

    def extra_modules(self):
        return []

    def ev_isa(self, kind: str, cls_name: str) -> bool:
        return cls_name in self.class_ancestors(kind)

    # ---- values
    def _fn_locals(self, node) -> set:
        """names bound inside the function enclosing ``node`` (parameters, stores); empty for synthesised nodes"""
        n = getattr(node, "_parent", None)
        while n is not None and not isinstance(n, (ast.FunctionDef, ast.AsyncFunctionDef, ast.Lambda)):
            n = getattr(n, "_parent", None)
        if n is None:
            return set()
        c = self._locals_cache.get(id(n))
        if c is None or c[0] is not n:
            names = set()
            for x in ast.walk(n):
                if isinstance(x, ast.Name) and isinstance(x.ctx, (ast.Store, ast.Del)):
                    names.add(x.id)
                elif isinstance(x, ast.arg):
                    names.add(x.arg)
            c = (n, names)
            self._locals_cache[id(n)] = c
        return c[1]

    def chain(self, expr, st, depth) -> str:
        """attribute chain of ``expr`` with a leading local that is bound to a reference replaced by that reference
        (`flow = self.flow; flow.live` is `self.flow.live`); '' when ``expr`` is not a chain"""
        ch = attr_chain(expr)
        if not ch:
            return ""
        root, _, rest = ch.partition(".")
        if root in ("self", "cls"):
            return ch
        v = st.get(f"{depth}:{root}")
        if isinstance(v, tuple) and len(v) == 2 and v[0] == "r":
            return v[1] + ("." + rest if rest else "")
        return ch

    def ev_depth(self, node, st) -> int:
        """frame in which ``node`` is being evaluated, for callbacks that are not told (``events``): the deepest frame that binds a
        local name used in ``node`` (frames of finished calls are dropped from the state, so the deepest binding is the live one)"""
        names = {n.id for n in ast.walk(node) if isinstance(n, ast.Name)}
        best = 0
        for k, _ in st.env:
            d, sep, nm = k.partition(":")
            if sep and d.isdigit() and nm in names and int(d) > best:
                best = int(d)
        return best

    def value(self, expr, st, depth):
        if isinstance(expr, ast.Call):
            name = last_attr(expr.func)
            if isinstance(expr.func, ast.Name):
                fv = self.value(expr.func, st, depth)
                if fv[0] == "r" and "." not in fv[1]:
                    name = fv[1]  # a class bound to a local (`make = RequestData if up else ResponseData; make(..)`)
            if name and name[0].isupper() and self.is_event_class(name):
                attrs = {}
                for k in expr.keywords:
                    if k.arg:
                        v = Spec.value(self, k.value, st, depth)
                        if is_const(v):
                            attrs[k.arg] = v[1]
                return EV(name, **attrs)
            pv = self.pure_call(expr, st, depth)
            if pv is not None:
                return pv
            return Spec.value(self, expr, st, depth)
        if isinstance(expr, ast.Name):
            key = f"{depth}:{expr.id}"
            if st.has(key):
                return st.get(key)
            if expr.id in self._module_names and expr.id not in self._fn_locals(expr):
                return R(expr.id)  # module-level class / function / constant: a stable reference
            return UNKNOWN
        if isinstance(expr, ast.Attribute):
            if isinstance(expr.value, ast.Name):
                base = st.get(f"{depth}:{expr.value.id}")
                if is_ev(base):
                    for k, v in base[2]:
                        if k == expr.attr:
                            return C(v)
                    return UNKNOWN
            ch = self.chain(expr, st, depth)
            if ch:
                if ch in self.object_attrs:
                    return R(ch)
                if st.has(ch):
                    return st.get(ch)
                return R(ch)
        if isinstance(expr, ast.IfExp):
            t = self.truth(expr.test, st, depth)
            if t is not None:
                return self.value(expr.body if t else expr.orelse, st, depth)
            return UNKNOWN
        if isinstance(expr, ast.NamedExpr):
            return self.value(expr.value, st, depth)
        return Spec.value(self, expr, st, depth)

    def pure_call(self, call, st, depth):
        """Value of `self.helper(args)` for a non-generator helper of the layer whose abstract execution from this state has no
        event, no effect on the tracked state and one result on all paths (a predicate / selector such as `self._has_outcome()`):
        decided by executing the helper, so an extracted decision equals the in-line one.  None = not such a call."""
        f = call.func
        if not (isinstance(f, ast.Attribute) and isinstance(f.value, ast.Name) and f.value.id in ("self", "cls")):
            return None
        name = f.attr
        if name in self.no_inline or f"self.{name}" in self.tracked:
            return None
        r = self.model.method(self.rel, self.cls, name)
        if r is None:
            return None
        fn = r[1]
        if not isinstance(fn, ast.FunctionDef) or any(isinstance(n, (ast.Yield, ast.YieldFrom, ast.Await)) for n in ast.walk(fn)):
            return None
        key = (id(fn), depth)
        if key in self._pure_busy or depth + 1 > self.max_depth:
            return None
        self._pure_busy.add(key)
        try:
            base = State((), st.env)
            o = Engine(self).call(fn, call, {base}, depth)
        finally:
            self._pure_busy.discard(key)
        if o.exc or not o.ret:
            return None
        vals = set()
        for s in o.ret:
            if s.trace or s.drop(lambda k: k == "$ret").env != base.env:
                return None
            vals.add(s.get("$ret"))
        return vals.pop() if len(vals) == 1 else UNKNOWN

    def is_event_class(self, name: str) -> bool:
        anc = self.class_ancestors(name)
        return "Event" in anc or "HttpEvent" in anc

    def object_flag(self, v, st):
        """truthiness flag of the tracked object a reference denotes: True / False / None"""
        if isinstance(v, tuple) and len(v) == 2 and v[0] == "r" and v[1] in self.object_attrs:
            f = st.get(v[1])
            if is_const(f):
                return bool(f[1])
        return None

    def decide_leaf(self, cond, st, depth):
        if isinstance(cond, (ast.Name, ast.Attribute, ast.NamedExpr, ast.IfExp)):
            v = self.value(cond, st, depth)
            if is_const(v):
                return bool(v[1])
            if v[0] == "r":
                if v[1] in self.object_attrs:
                    return self.object_flag(v, st)
                if "." not in v[1] and v[1] in self._module_names and v[1][:1].isupper():
                    return True  # a class object
        if isinstance(cond, ast.Compare) and len(cond.ops) == 1 and isinstance(cond.ops[0], (ast.Is, ast.IsNot, ast.Eq, ast.NotEq)):
            a = self.value(cond.left, st, depth)
            b = self.value(cond.comparators[0], st, depth)
            for x, y in ((a, b), (b, a)):
                if y == C(None) and x[0] == "r" and x[1] in self.object_attrs:
                    if x[1] in self.nullable_attrs and self.object_flag(x, st) is not True:
                        return None  # unset or unknown: both outcomes are kept (rules start helpers in arbitrary states)
                    isnone = False
                    return isnone if isinstance(cond.ops[0], (ast.Is, ast.Eq)) else not isnone
        return Spec.decide_leaf(self, cond, st, depth)

    def decide_extra(self, cond, st, depth):
        if isinstance(cond, ast.Call) and isinstance(cond.func, ast.Name) and cond.func.id == "isinstance" and len(cond.args) == 2:
            v = self.value(cond.args[0], st, depth)
            names = class_names(cond.args[1])
            if is_ev(v):
                if not names:
                    return None
                return any(self.ev_isa(v[1], n) for n in names)
            if v[0] == "r" and v[1] in self.typed_refs and names:
                is_a, not_a = self.typed_refs[v[1]]
                if any(n == is_a for n in names):
                    return True
                if all(n in not_a for n in names):
                    return False
            return None
        if isinstance(cond, ast.Call):
            v = self.pure_call(cond, st, depth)
            if v is not None and is_const(v):
                return bool(v[1])
        return None

    # ---- inlining
    def inline(self, call, st, depth):
        f = call.func
        if isinstance(f, ast.Name) and st.has(f"{depth}:{f.id}"):
            # a bound method kept in a local (`handler = self.client_state if from_client else self.server_state; yield from handler(event)`)
            v = st.get(f"{depth}:{f.id}")
            if isinstance(v, tuple) and len(v) == 2 and v[0] == "r" and v[1].startswith("self.") and v[1].count(".") == 1:
                if v[1][5:] in self.no_inline:
                    return self.inline_special(call, st, depth)
                r = self.model.method(self.rel, self.cls, v[1][5:])
                return r[1] if r else None
            return None  # some other callable (an addon's stream function, a library function): opaque
        if isinstance(f, ast.Attribute) and isinstance(f.value, ast.Name) and f.value.id in ("self", "cls", self.cls):
            name = f.attr
            if name in self.no_inline:
                return self.inline_special(call, st, depth)
            ch = f"self.{name}"
            if ch in self.tracked and ch in self.dispatch_attrs:
                v = st.get(ch)
                if v[0] == "r" and v[1].startswith("self."):
                    name = v[1][5:]
                else:
                    raise AnalysisError(f"dispatch through {ch} with unknown target at {norm(call)}: {v}")
            r = self.model.method(self.rel, self.cls, name)
            if r is None:
                return None
            return r[1]
        return None

    def inline_special(self, call, st, depth):
        return None

    def admit(self, fn, call, st, depth) -> bool:
        """@expect pruning."""
        for d in fn.decorator_list:
            if isinstance(d, ast.Call) and last_attr(d.func) == "expect":
                if not call.args:
                    return True
                v = self.value(call.args[0], st, depth)
                if not is_ev(v):
                    return True
                names = [last_attr(a) for a in d.args]
                return any(self.ev_isa(v[1], n) for n in names)
        return True


class Monitor:
    """Rule monitor over transitions. ``step`` returns the new monitor value (hashable)."""

    init = ()

    def step(self, mon, event, trace, final_env: dict, report):
        return mon

    def offers(self, env: dict, mon):
        """Events the environment may deliver in this abstract state."""
        return []


def explore(spec: LayerSpec, entry_fn, init_env: dict, monitor: Monitor, max_states: int = 20000):
    """Breadth-first fix-point over (env, mon). Returns dict with counts and violations."""
    eng = Engine(spec)
    start = (tuple(sorted(init_env.items())), monitor.init)
    seen = {start: None}
    q = deque([start])
    transitions = 0
    violations = []
    samples = []

    def history(node):
        h = []
        while node is not None and seen.get(node) is not None:
            parent, ev, tr = seen[node]
            h.append((ev[1], [e for e in tr]))
            node = parent
        h.reverse()
        return h

    while q:
        node = q.popleft()
        env, mon = node
        for ev in monitor.offers(dict(env), mon):
            st0 = State((), dict(env)).set("0:event", ev)
            finals = eng.finals(entry_fn, st0)
            for fs in finals:
                transitions += 1
                fenv = {k: v for k, v in fs.env if not (k[:1].isdigit() and ":" in k) and not k.startswith("$")}
                exc = fs.get("$exc")
                msgs = []
                mon2 = monitor.step(mon, ev, fs.trace, fenv, msgs.append, exc[1] if is_const(exc) else None)
                for m in msgs:
                    violations.append({"message": m, "history": history(node) + [(ev[1], list(fs.trace))]})
                if mon2 is None:
                    continue
                nxt = (tuple(sorted(fenv.items())), mon2)
                if nxt not in seen:
                    seen[nxt] = (node, ev, fs.trace)
                    q.append(nxt)
                    if len(samples) < 8 and fs.trace:
                        samples.append({"event": ev[1], "trace": [list(map(str, e)) if isinstance(e, tuple) else e for e in fs.trace]})
                    if len(seen) > max_states:
                        raise AnalysisError(f"layer exploration exceeded {max_states} abstract states")
    return {
        "states": len(seen),
        "transitions": transitions,
        "violations": violations,
        "samples": samples,
        "pruned": eng.pruned,
        "forks": eng.forks,
        "truncated": eng.truncated,
        "inlined": sorted(eng.inlined),
    }
