"""E2/E3: structural path-effect enumeration over a function body.

A function is abstractly executed over *sets of states*; a state is (trace, env):
  trace  tuple of events produced by the rule's labeller (projection onto the rule's alphabet)
  env    tracked abstract values (locals of the frames being inlined, tracked attribute chains)
States are de-duplicated at every join, so only distinct projected behaviours are kept.
Loops are unrolled ``unroll`` times (stated in the evidence).  Helper calls selected by the rule are
inlined by abstract execution of the callee (depth bounded).  Conditions the rule can decide from the
environment are decided, everything else forks both ways.

Nothing here imports or executes repository code: only its AST is interpreted.
"""

from __future__ import annotations

import ast
from dataclasses import dataclass

from .core import AnalysisError
from .core import norm
from .model import attr_chain
from .model import eval_order
from .model import last_attr
from .model import stmts_of

UNKNOWN = ("u",)


def C(v):
    return ("c", v)


def R(text):
    return ("r", text)


def is_const(v):
    return isinstance(v, tuple) and len(v) == 2 and v[0] == "c"


class State:
    __slots__ = ("trace", "env", "_h")

    def __init__(self, trace=(), env=()):
        self.trace = trace
        self.env = env if isinstance(env, tuple) else tuple(sorted(env.items(), key=lambda kv: kv[0]))
        self._h = hash((self.trace, self.env))

    def __hash__(self):
        return self._h

    def __eq__(self, o):
        return self.trace == o.trace and self.env == o.env

    def get(self, key, default=UNKNOWN):
        for k, v in self.env:
            if k == key:
                return v
        return default

    def has(self, key):
        return any(k == key for k, _ in self.env)

    def set(self, key, value) -> "State":
        d = dict(self.env)
        d[key] = value
        return State(self.trace, d)

    def drop(self, pred) -> "State":
        return State(self.trace, {k: v for k, v in self.env if not pred(k)})

    def emit(self, *events) -> "State":
        if not events:
            return self
        return State(self.trace + tuple(events), self.env)

    def __repr__(self):
        return f"State({list(self.trace)}, {dict(self.env)})"


@dataclass
class Out:
    normal: set
    ret: set
    exc: set
    brk: set
    cont: set

    @staticmethod
    def empty():
        return Out(set(), set(), set(), set(), set())

    def merge_abrupt(self, o: "Out"):
        self.ret |= o.ret
        self.exc |= o.exc
        self.brk |= o.brk
        self.cont |= o.cont


BUILTIN_EXC_PARENTS = {
    "KeyError": "LookupError",
    "IndexError": "LookupError",
    "LookupError": "Exception",
    "ValueError": "Exception",
    "UnicodeError": "ValueError",
    "UnicodeDecodeError": "UnicodeError",
    "UnicodeEncodeError": "UnicodeError",
    "TypeError": "Exception",
    "AttributeError": "Exception",
    "AssertionError": "Exception",
    "OSError": "Exception",
    "IOError": "Exception",
    "EOFError": "Exception",
    "RuntimeError": "Exception",
    "NotImplementedError": "RuntimeError",
    "StopIteration": "Exception",
    "Exception": "BaseException",
    "CancelledError": "BaseException",
    "KeyboardInterrupt": "BaseException",
    "SystemExit": "BaseException",
}


class Spec:
    """Rule-specific hooks. Subclass and override what the rule needs."""

    unroll = 1
    max_depth = 3
    max_states = 60000
    tracked: tuple = ()  # attribute chains whose assignments are recorded in env (e.g. 'self.client_state')
    record_conds: bool = False
    exc_parents: dict = {}

    # ---- labelling
    def events(self, node, st: State):
        """Events for a simple statement or a condition expression (called once per such node)."""
        out = []
        for n in eval_order(node):
            if isinstance(n, ast.Yield) and isinstance(n.value, ast.Call):
                out.append(("yield", last_attr(n.value.func)))
        return out

    def cond_event(self, expr, value: bool, st: State):
        """Event recorded when a branch on ``expr`` is taken (only if record_conds)."""
        return ("cond", norm(expr), value)

    # ---- values
    def value(self, expr, st: State, depth: int):
        if expr is None:
            return C(None)
        if isinstance(expr, ast.Constant):
            return C(expr.value)
        if isinstance(expr, ast.JoinedStr):
            if any(isinstance(v, ast.Constant) and v.value for v in expr.values):
                return C("<fstring>")  # non-empty literal part: truthy
            return UNKNOWN
        if isinstance(expr, ast.Name):
            return st.get(f"{depth}:{expr.id}")
        ch = attr_chain(expr)
        if ch:
            if st.has(ch):
                return st.get(ch)
            return R(ch)
        if isinstance(expr, ast.BoolOp):
            # `a and b` / `a or b` evaluate to one of their operands: exact whenever the operands up to the deciding one are
            # known constants (a decision split into temporaries - `busy = x in (..)`; `flag = isinstance(..) and busy` - stays decided)
            is_and = isinstance(expr.op, ast.And)
            last = None
            for operand in expr.values:
                v = self.value(operand, st, depth)
                if not is_const(v):
                    last = None
                    break
                if bool(v[1]) != is_and:
                    return v
                last = v
            if last is not None:
                return last
        if self._bool_typed(expr):
            t = self.truth(expr, st, depth)
            if t is not None:
                return C(t)
        return UNKNOWN

    @staticmethod
    def _bool_typed(expr) -> bool:
        """expressions whose *value* is the bool of their truth: comparisons, not, isinstance/callable/bool calls and and/or of such
        (`a or b` of arbitrary operands evaluates to one of the operands, not to a bool)"""
        if isinstance(expr, ast.Compare) or (isinstance(expr, ast.UnaryOp) and isinstance(expr.op, ast.Not)):
            return True
        if isinstance(expr, ast.Call) and isinstance(expr.func, ast.Name) and expr.func.id in ("isinstance", "callable", "bool", "hasattr", "issubclass"):
            return True
        if isinstance(expr, ast.Constant) and isinstance(expr.value, bool):
            return True
        if isinstance(expr, ast.BoolOp):
            return all(Spec._bool_typed(v) for v in expr.values)
        return False

    def truth(self, expr, st: State, depth: int):
        """Three-valued truth of an expression: True / False / None (unknown)."""
        if isinstance(expr, ast.BoolOp):
            # short-circuit like Python: operands after a deciding one are not evaluated (they may be undefined there, e.g.
            # `limit is not None and size > limit`); an unknown operand does not stop the scan for a deciding later one
            is_and = isinstance(expr.op, ast.And)
            unknown = False
            for v in expr.values:
                t = self.truth(v, st, depth)
                if t is (False if is_and else True):
                    return t
                if t is None:
                    unknown = True
            return None if unknown else is_and
        if isinstance(expr, ast.UnaryOp) and isinstance(expr.op, ast.Not):
            t = self.truth(expr.operand, st, depth)
            return None if t is None else (not t)
        return self.decide_leaf(expr, st, depth)

    def decide(self, cond, st: State, depth: int):
        """True / False / None (fork)."""
        return self.truth(cond, st, depth)

    def decide_leaf(self, cond, st: State, depth: int):
        if isinstance(cond, (ast.Constant, ast.Name, ast.Attribute)):
            v = self.value(cond, st, depth)
            if is_const(v):
                return bool(v[1])
        if isinstance(cond, ast.Compare) and len(cond.ops) == 1:
            a = self.value(cond.left, st, depth)
            b = self.value(cond.comparators[0], st, depth)
            op = cond.ops[0]
            if isinstance(op, (ast.Is, ast.Eq, ast.IsNot, ast.NotEq)):
                eq = None
                if is_const(a) and is_const(b):
                    eq = a[1] == b[1]
                elif a[0] == "r" and b[0] == "r":
                    eq = a[1] == b[1] if self.refs_are_distinct(a[1], b[1]) else (True if a[1] == b[1] else None)
                if eq is not None:
                    return eq if isinstance(op, (ast.Is, ast.Eq)) else not eq
            if isinstance(op, (ast.In, ast.NotIn)) and isinstance(cond.comparators[0], (ast.Tuple, ast.Set, ast.List)):
                elts = [self.value(e, st, depth) for e in cond.comparators[0].elts]
                res = None
                if a[0] == "r" and all(e[0] == "r" for e in elts) and all(self.refs_are_distinct(a[1], e[1]) for e in elts):
                    res = any(a[1] == e[1] for e in elts)
                elif is_const(a) and all(is_const(e) for e in elts):
                    res = any(a[1] == e[1] for e in elts)
                if res is not None:
                    return res if isinstance(op, ast.In) else not res
        return self.decide_extra(cond, st, depth)

    def decide_extra(self, cond, st, depth):
        return None

    def refs_are_distinct(self, a: str, b: str) -> bool:
        """Are two symbolic references known to denote distinct objects when their texts differ?
        True for bound-method references such as self.state_done vs self.state_errored."""
        return a.startswith("self.state") and b.startswith("self.state")

    # ---- effects
    def effect(self, stmt, st: State, depth: int) -> State:
        if isinstance(stmt, ast.Assign):
            v = self.value(stmt.value, st, depth)
            for t in stmt.targets:
                st = self.bind(t, stmt.value, st, depth, value=v)
            return st
        if isinstance(stmt, ast.AnnAssign) and stmt.value is not None:
            return self.bind(stmt.target, stmt.value, st, depth)
        if isinstance(stmt, ast.AugAssign):
            t = stmt.target
            if isinstance(t, ast.Name):
                return st.set(f"{depth}:{t.id}", UNKNOWN)
            ch = attr_chain(t)
            if ch in self.tracked:
                return st.set(ch, UNKNOWN)
        return st

    def bind(self, target, value_expr, st: State, depth: int, value=None) -> State:
        v = value if value is not None else self.value(value_expr, st, depth)
        if isinstance(target, ast.Name):
            return st.set(f"{depth}:{target.id}", v)
        if isinstance(target, (ast.Tuple, ast.List)):
            if (isinstance(value_expr, (ast.Tuple, ast.List)) and len(value_expr.elts) == len(target.elts) and (value is None or value == UNKNOWN)
                    and not any(isinstance(x, ast.Starred) for x in list(value_expr.elts) + list(target.elts))):
                # a, b = x, y: element-wise, the right-hand side evaluated in the old state
                vals = [self.value(e, st, depth) for e in value_expr.elts]
                for t, e, v in zip(target.elts, value_expr.elts, vals):
                    st = self.bind(t, e, st, depth, value=v)
                return st
            for e in target.elts:
                st = self.bind(e, None, st, depth, value=UNKNOWN)
            return st
        ch = attr_chain(target)
        if ch and ch in self.tracked:
            return st.set(ch, v)
        return st

    # ---- inlining
    def inline(self, call: ast.Call, st: State, depth: int):
        """Return a FunctionDef to inline for this call, or None."""
        return None

    # ---- exceptions
    def raises_into(self, stmt, handler_names: list[str], st: State) -> list[str]:
        """Implicit exception edges: exception class names ``stmt`` may raise that reach a handler."""
        return []

    def isa(self, exc: str, handler: str) -> bool:
        seen = set()
        e = exc
        while e and e not in seen:
            if e == handler:
                return True
            seen.add(e)
            e = self.exc_parents.get(e) or BUILTIN_EXC_PARENTS.get(e)
        return False

    def match_case(self, subject, pattern, st: State, depth: int):
        """True/False/None for ``match subject: case pattern``.  Patterns with an equivalent boolean expression (class patterns without
        sub-patterns = isinstance, value / singleton patterns = ==/is, or-patterns, ``as`` bindings) are decided exactly like that expression,
        so an ``if isinstance(..)/elif`` chain and its ``match`` rewrite are analysed alike."""
        if isinstance(pattern, ast.MatchAs) and pattern.pattern is None:
            return True
        cond = pattern_to_cond(subject, pattern)
        if cond is not None:
            return self.decide(cond, st, depth)
        return None


def pattern_to_cond(subject, pattern):
    """Boolean expression (synthesised AST, located at the pattern) equivalent to ``match subject: case pattern`` or None."""

    def at(node):
        ast.copy_location(node, pattern)
        for n in ast.walk(node):
            if not hasattr(n, "lineno"):
                ast.copy_location(n, pattern)
        return node

    if isinstance(pattern, ast.MatchAs):
        return pattern_to_cond(subject, pattern.pattern) if pattern.pattern is not None else at(ast.Constant(value=True))
    def irrefutable(p):
        return isinstance(p, ast.MatchAs) and p.pattern is None  # a capture or the wildcard

    if isinstance(pattern, ast.MatchClass) and all(irrefutable(p) for p in list(pattern.patterns) + list(pattern.kwd_patterns)):
        # sub-patterns that only capture attributes do not restrict the match (the attribute exists on instances of the class)
        return at(ast.Call(func=ast.Name(id="isinstance", ctx=ast.Load()), args=[subject, pattern.cls], keywords=[]))
    if isinstance(pattern, ast.MatchValue):
        return at(ast.Compare(left=subject, ops=[ast.Eq()], comparators=[pattern.value]))
    if isinstance(pattern, ast.MatchSingleton):
        return at(ast.Compare(left=subject, ops=[ast.Is()], comparators=[ast.Constant(value=pattern.value)]))
    if isinstance(pattern, ast.MatchOr):
        parts = [pattern_to_cond(subject, p) for p in pattern.patterns]
        if any(x is None for x in parts):
            return None
        return at(ast.BoolOp(op=ast.Or(), values=parts))
    return None


def class_names(typeexpr) -> list[str]:
    """Last attribute names of the classes in the second argument of isinstance(): a class, a tuple of classes or a ``A | B`` union."""
    if isinstance(typeexpr, ast.Tuple):
        return [n for e in typeexpr.elts for n in class_names(e)]
    if isinstance(typeexpr, ast.BinOp) and isinstance(typeexpr.op, ast.BitOr):
        return class_names(typeexpr.left) + class_names(typeexpr.right)
    n = last_attr(typeexpr)
    return [n] if n else []


class Engine:
    def __init__(self, spec: Spec):
        self.spec = spec
        self.truncated = 0
        self.pruned = 0
        self.forks = 0
        self.inlined: set[str] = set()
        self.peak = 0

    # ---- entry
    def run(self, fn, init: State | None = None, bindings: dict | None = None) -> Out:
        st = init or State()
        for k, v in (bindings or {}).items():
            st = st.set(f"0:{k}", v)
        out = self.block(stmts_of(fn), {st}, 0)
        out.ret |= {s.set("$ret", C(None)) for s in out.normal}
        out.normal = set()
        return out

    def finals(self, fn, init: State | None = None, bindings: dict | None = None):
        """All terminal states (returned or raised) of ``fn``."""
        o = self.run(fn, init, bindings)
        return o.ret | o.exc

    # ---- blocks
    def _guard(self, states):
        n = len(states)
        self.peak = max(self.peak, n)
        if n > self.spec.max_states:
            raise AnalysisError(f"path engine: {n} states exceed the bound {self.spec.max_states}; refine the projection")

    def block(self, stmts, states: set, depth: int) -> Out:
        out = Out.empty()
        cur = set(states)
        for st in stmts:
            if not cur:
                break
            o = self.stmt(st, cur, depth)
            out.merge_abrupt(o)
            cur = o.normal
            self._guard(cur)
        out.normal = cur
        return out

    # ---- conditions
    def cond(self, expr, states: set, depth: int):
        """-> (true_states, false_states, abrupt Out)"""
        sp = self.spec
        T, F = set(), set()
        ab = Out.empty()
        if isinstance(expr, ast.BoolOp):
            cur = set(states)
            if isinstance(expr.op, ast.And):
                for v in expr.values:
                    t, f, a = self.cond(v, cur, depth)
                    ab.merge_abrupt(a)
                    F |= f
                    cur = t
                T = cur
            else:
                for v in expr.values:
                    t, f, a = self.cond(v, cur, depth)
                    ab.merge_abrupt(a)
                    T |= t
                    cur = f
                F = cur
            return T, F, ab
        if isinstance(expr, ast.UnaryOp) and isinstance(expr.op, ast.Not):
            t, f, a = self.cond(expr.operand, states, depth)
            return f, t, a
        call = self._inlinable(expr)
        if call is not None:
            for s in states:
                fn = sp.inline(call, s, depth)
                if fn is None:
                    self._plain_cond(expr, s, depth, T, F)
                    continue
                o = self.call(fn, call, {s}, depth)
                ab.exc |= o.exc
                for r in o.ret:
                    v = r.get("$ret")
                    r2 = r.drop(lambda k: k == "$ret")
                    if is_const(v):
                        (T if v[1] else F).add(self._cev(expr, bool(v[1]), r2))
                    else:
                        self.forks += 1
                        T.add(self._cev(expr, True, r2))
                        F.add(self._cev(expr, False, r2))
            return T, F, ab
        if isinstance(expr, ast.NamedExpr):
            # (x := value): evaluate value for events, bind, then decide on the bound name
            for s in states:
                s = s.emit(*sp.events(expr.value, s))
                s = sp.bind(expr.target, expr.value, s, depth)
                self._decide_into(expr, expr.target, s, depth, T, F)
            return T, F, ab
        for s in states:
            self._plain_cond(expr, s, depth, T, F)
        return T, F, ab

    def _plain_cond(self, expr, s, depth, T, F):
        s = s.emit(*self.spec.events(expr, s))
        self._decide_into(expr, expr, s, depth, T, F)

    def _decide_into(self, shown, expr, s, depth, T, F):
        d = self.spec.decide(expr, s, depth)
        if d is True:
            T.add(self._cev(shown, True, s))
        elif d is False:
            F.add(self._cev(shown, False, s))
        else:
            self.forks += 1
            T.add(self._cev(shown, True, s))
            F.add(self._cev(shown, False, s))

    def _cev(self, expr, val, s):
        if self.spec.record_conds:
            ev = self.spec.cond_event(expr, val, s)
            if ev is not None:
                return s.emit(ev)
        return s

    @staticmethod
    def _inlinable(expr):
        e = expr
        if isinstance(e, (ast.YieldFrom, ast.Await)):
            e = e.value
        return e if isinstance(e, ast.Call) else None

    # ---- calls
    def call(self, fn, call: ast.Call, states: set, depth: int) -> Out:
        """Inline ``fn`` for ``call``; result states are in .ret with '$ret' bound, or in .exc."""
        sp = self.spec
        if depth + 1 > sp.max_depth:
            raise AnalysisError(f"inlining depth {sp.max_depth} exceeded at {norm(call)}")
        self.inlined.add(fn.name)
        d2 = depth + 1
        res = Out.empty()
        params = [a.arg for a in fn.args.posonlyargs + fn.args.args]
        if params and params[0] in ("self", "cls"):
            params = params[1:]
        defaults = fn.args.defaults
        defmap = {}
        allp = [a.arg for a in fn.args.posonlyargs + fn.args.args]
        for p, dflt in zip(allp[len(allp) - len(defaults):], defaults):
            defmap[p] = dflt
        for a, dflt in zip(fn.args.kwonlyargs, fn.args.kw_defaults):
            params.append(a.arg)
            if dflt is not None:
                defmap[a.arg] = dflt
        for s in states:
            adm = getattr(sp, "admit", None)
            if adm is not None and not adm(fn, call, s, depth):
                self.pruned += 1
                continue
            s = s.emit(*sp.events(call, s)) if getattr(sp, "label_inlined_call", False) else s
            s2 = s
            pos = list(call.args)
            kw = {k.arg: k.value for k in call.keywords if k.arg}
            for i, p in enumerate([q for q in params if q not in [a.arg for a in fn.args.kwonlyargs]]):
                if i < len(pos):
                    s2 = s2.set(f"{d2}:{p}", sp.value(pos[i], s, depth))
                elif p in kw:
                    s2 = s2.set(f"{d2}:{p}", sp.value(kw[p], s, depth))
                elif p in defmap:
                    s2 = s2.set(f"{d2}:{p}", sp.value(defmap[p], s, depth))
            for a in fn.args.kwonlyargs:
                p = a.arg
                if p in kw:
                    s2 = s2.set(f"{d2}:{p}", sp.value(kw[p], s, depth))
                elif p in defmap:
                    s2 = s2.set(f"{d2}:{p}", sp.value(defmap[p], s, depth))
            o = self.block(stmts_of(fn), {s2}, d2)
            pref = f"{d2}:"
            for r in o.ret | {x.set("$ret", C(None)) for x in o.normal}:
                res.ret.add(r.drop(lambda k: k.startswith(pref)))
            for r in o.exc:
                res.exc.add(r.drop(lambda k: k.startswith(pref)))
        return res

    # ---- statements
    def stmt(self, node, states: set, depth: int) -> Out:
        sp = self.spec
        out = Out.empty()
        if isinstance(node, ast.If):
            t, f, ab = self.cond(node.test, states, depth)
            out.merge_abrupt(ab)
            o1 = self.block(node.body, t, depth)
            o2 = self.block(node.orelse, f, depth)
            out.merge_abrupt(o1)
            out.merge_abrupt(o2)
            out.normal = o1.normal | o2.normal
            return out
        if isinstance(node, ast.While):
            return self._loop(node, states, depth, is_for=False)
        if isinstance(node, (ast.For, ast.AsyncFor)):
            return self._loop(node, states, depth, is_for=True)
        if isinstance(node, (ast.With, ast.AsyncWith)):
            cur = set()
            for s in states:
                for item in node.items:
                    s = s.emit(*sp.events(item.context_expr, s))
                    if item.optional_vars is not None:
                        s = sp.bind(item.optional_vars, item.context_expr, s, depth, value=UNKNOWN)
                s = s.emit(*self._with_enter(node, s))
                cur.add(s)
            o = self.block(node.body, cur, depth)
            ex = self._with_exit(node)
            if ex:
                o = Out(
                    {s.emit(*ex) for s in o.normal},
                    {s.emit(*ex) for s in o.ret},
                    {s.emit(*ex) for s in o.exc},
                    {s.emit(*ex) for s in o.brk},
                    {s.emit(*ex) for s in o.cont},
                )
            return o
        if isinstance(node, ast.Try) or node.__class__.__name__ == "TryStar":
            return self._try(node, states, depth)
        if isinstance(node, ast.Match):
            return self._match(node, states, depth)
        if isinstance(node, ast.Return):
            if node.value is not None:
                call = self._inlinable(node.value)
                if call is not None:
                    for s in states:
                        fn = sp.inline(call, s, depth)
                        if fn is None:
                            s = s.emit(*sp.events(node, s))
                            out.ret.add(s.set("$ret", sp.value(node.value, s, depth)))
                        else:
                            o = self.call(fn, call, {s}, depth)
                            out.exc |= o.exc
                            out.ret |= o.ret
                    return out
                if isinstance(node.value, ast.IfExp):
                    t, f, ab = self.cond(node.value.test, states, depth)
                    out.merge_abrupt(ab)
                    for s in t:
                        out.ret.add(s.set("$ret", sp.value(node.value.body, s, depth)))
                    for s in f:
                        out.ret.add(s.set("$ret", sp.value(node.value.orelse, s, depth)))
                    return out
            for s in states:
                s = s.emit(*sp.events(node, s))
                v = sp.value(node.value, s, depth) if node.value is not None else C(None)
                out.ret.add(s.set("$ret", v))
            return out
        if isinstance(node, ast.Raise):
            for s in states:
                s = s.emit(*sp.events(node, s))
                name = ""
                if node.exc is not None:
                    name = last_attr(node.exc)
                else:
                    v = s.get("$handling")
                    name = v[1] if is_const(v) else "Exception"
                out.exc.add(s.set("$exc", C(name)))
            return out
        if isinstance(node, ast.Break):
            out.brk = set(states)
            return out
        if isinstance(node, ast.Continue):
            out.cont = set(states)
            return out
        if isinstance(node, ast.Assert):
            t, f, ab = self.cond(node.test, states, depth)
            out.merge_abrupt(ab)
            self.pruned += len(f) if not t else 0
            out.normal = t  # assertions are assumed to hold (paths violating them are not behaviours)
            return out
        if isinstance(node, (ast.FunctionDef, ast.AsyncFunctionDef, ast.ClassDef, ast.Pass, ast.Import, ast.ImportFrom, ast.Global, ast.Nonlocal)):
            out.normal = set(states)
            return out
        # simple statements, with inlining of `x = yield from self.f()` / `self.f()` / `await self.f()`
        call = None
        target = None
        if isinstance(node, ast.Expr):
            call = self._inlinable(node.value)
        elif isinstance(node, ast.Assign) and len(node.targets) == 1:
            call = self._inlinable(node.value)
            target = node.targets[0]
        elif isinstance(node, ast.AnnAssign) and node.value is not None:
            call = self._inlinable(node.value)
            target = node.target
        for s in states:
            fn = sp.inline(call, s, depth) if call is not None else None
            if fn is not None:
                o = self.call(fn, call, {s}, depth)
                out.exc |= o.exc
                for r in o.ret:
                    v = r.get("$ret")
                    r = r.drop(lambda k: k == "$ret")
                    if target is not None:
                        r = sp.bind(target, None, r, depth, value=v)
                    out.normal.add(r)
                continue
            if isinstance(node, (ast.Assign, ast.AnnAssign)) and isinstance(node.value, ast.IfExp) and (isinstance(node, ast.AnnAssign) or len(node.targets) == 1):
                # `x = a if c else b` is analysed like `if c: x = a` / `else: x = b`: the chosen arm is labelled as an ordinary assignment
                t, f, ab = self.cond(node.value.test, {s}, depth)
                out.merge_abrupt(ab)
                for arm, sts in ((node.value.body, t), (node.value.orelse, f)):
                    if isinstance(node, ast.Assign):
                        synth = ast.Assign(targets=node.targets, value=arm, type_comment=None)
                    else:
                        synth = ast.AnnAssign(target=node.target, annotation=node.annotation, value=arm, simple=node.simple)
                    ast.copy_location(synth, node)
                    synth._parent = getattr(node, "_parent", None)
                    for s1 in sts:
                        s1 = s1.emit(*sp.events(synth, s1))
                        out.normal.add(sp.effect(synth, s1, depth))
                continue
            s = s.emit(*sp.events(node, s))
            s = sp.effect(node, s, depth)
            out.normal.add(s)
        return out

    def _with_enter(self, node, s):
        f = getattr(self.spec, "with_enter", None)
        return f(node, s) if f else ()

    def _with_exit(self, node):
        f = getattr(self.spec, "with_exit", None)
        return f(node) if f else ()

    def _loop(self, node, states, depth, is_for):
        sp = self.spec
        out = Out.empty()
        exits = set()
        cur = set(states)
        if is_for:
            cur = {s.emit(*sp.events(node.iter, s)) for s in cur}
        for k in range(sp.unroll + 1):
            if not cur:
                break
            if is_for:
                # zero-or-more iterations: exit now or iterate
                exits |= {self._loop_ev(node, False, s) for s in cur}
                if k == sp.unroll:
                    break
                body_in = {self._loop_ev(node, True, sp.bind(node.target, None, s, depth, value=UNKNOWN)) for s in cur}
            else:
                t, f, ab = self.cond(node.test, cur, depth)
                out.merge_abrupt(ab)
                exits |= f
                if k == sp.unroll:
                    self.truncated += len(t)
                    always = isinstance(node.test, ast.Constant) and bool(node.test.value)
                    if not always:
                        exits |= t  # assume the loop is left after the unrolled iterations
                    break
                body_in = t
            o = self.block(node.body, body_in, depth)
            out.ret |= o.ret
            out.exc |= o.exc
            out.normal |= o.brk  # break skips orelse
            cur = o.normal | o.cont
            self._guard(cur)
        oe = self.block(node.orelse, exits, depth) if node.orelse else None
        if oe is not None:
            out.merge_abrupt(oe)
            out.normal |= oe.normal
        else:
            out.normal |= exits
        return out

    def _loop_ev(self, node, entered, s):
        f = getattr(self.spec, "loop_event", None)
        if f:
            ev = f(node, entered, s)
            if ev is not None:
                return s.emit(ev)
        return s

    def _handler_names(self, h) -> list[str]:
        if h.type is None:
            return ["BaseException"]
        if isinstance(h.type, ast.Tuple):
            return [last_attr(e) for e in h.type.elts]
        return [last_attr(h.type)]

    def _try(self, node, states, depth):
        sp = self.spec
        out = Out.empty()
        all_handler_names = [n for h in node.handlers for n in self._handler_names(h)]
        # body with implicit exception edges (asked of the rule, statement by statement)
        body_exc = set()
        cur = set(states)
        body = Out.empty()
        for st in node.body:
            if not cur:
                break
            if all_handler_names:
                for s in cur:
                    for exc in sp.raises_into(st, all_handler_names, s):
                        body_exc.add(s.set("$exc", C(exc)))
            o = self.stmt(st, cur, depth)
            body.merge_abrupt(o)
            cur = o.normal
        body.normal = cur
        body_exc |= body.exc
        # dispatch exceptions to handlers
        uncaught = set()
        handled = Out.empty()
        for s in body_exc:
            e = s.get("$exc")
            ename = e[1] if is_const(e) else "Exception"
            for h in node.handlers:
                if any(sp.isa(ename, hn) for hn in self._handler_names(h)):
                    s2 = s.drop(lambda k: k == "$exc").set("$handling", C(ename))
                    if h.name:
                        s2 = s2.set(f"{depth}:{h.name}", UNKNOWN)
                    hev = getattr(sp, "handler_event", None)
                    if hev:
                        ev = hev(h, ename, s2)
                        if ev is not None:
                            s2 = s2.emit(ev)
                    o = self.block(h.body, {s2}, depth)
                    o.normal = {x.drop(lambda k: k == "$handling") for x in o.normal}
                    handled.merge_abrupt(o)
                    handled.normal |= o.normal
                    break
            else:
                uncaught.add(s)
        oe = self.block(node.orelse, body.normal, depth) if node.orelse else Out(body.normal, set(), set(), set(), set())
        res = Out(
            oe.normal | handled.normal,
            body.ret | oe.ret | handled.ret,
            uncaught | oe.exc | handled.exc,
            body.brk | oe.brk | handled.brk,
            body.cont | oe.cont | handled.cont,
        )
        if node.finalbody:
            fin = Out.empty()
            for kind in ("normal", "ret", "exc", "brk", "cont"):
                src = getattr(res, kind)
                if not src:
                    continue
                o = self.block(node.finalbody, src, depth)
                fin.merge_abrupt(Out(set(), o.ret, o.exc, o.brk, o.cont))
                getattr(fin, kind).update(o.normal)
            res = fin
        return res

    def _match(self, node, states, depth):
        sp = self.spec
        out = Out.empty()
        cur = {s.emit(*sp.events(node.subject, s)) for s in states}
        for case in node.cases:
            if not cur:
                break
            take, rest = set(), set()
            # captures of a class pattern (`case X(attr=name)` / `case X() as name`) are bound like `name = subject.attr` / `name = subject`
            # (before the guard is evaluated, as in Python)
            binds = []
            pat = case.pattern
            if isinstance(pat, ast.MatchAs) and pat.pattern is not None and pat.name:
                binds.append((pat.name, node.subject))
                pat = pat.pattern
            if isinstance(pat, ast.MatchClass):
                for attr, sub in zip(pat.kwd_attrs, pat.kwd_patterns):
                    if isinstance(sub, ast.MatchAs) and sub.pattern is None and sub.name:
                        binds.append((sub.name, ast.copy_location(ast.Attribute(value=node.subject, attr=attr, ctx=ast.Load()), sub)))
                for sub in pat.patterns:
                    if isinstance(sub, ast.MatchAs) and sub.pattern is None and sub.name:
                        binds.append((sub.name, None))  # positional capture: which attribute depends on __match_args__ - unknown value

            def bound(s):
                for name, vexpr in binds:
                    tgt = ast.copy_location(ast.Name(id=name, ctx=ast.Store()), case.pattern)
                    s = sp.bind(tgt, vexpr, s, depth) if vexpr is not None else sp.bind(tgt, None, s, depth, value=UNKNOWN)
                return s

            for s in cur:
                d = sp.match_case(node.subject, case.pattern, s, depth)
                if d is True and case.guard is None:
                    take.add(bound(s))
                elif d is False:
                    rest.add(s)
                else:
                    if case.guard is not None and d is True:
                        t, f, ab = self.cond(case.guard, {bound(s)}, depth)
                        out.merge_abrupt(ab)
                        take |= t
                        rest |= f
                    else:
                        self.forks += 1
                        take.add(bound(s))
                        rest.add(s)
            if sp.record_conds:
                cexpr = pattern_to_cond(node.subject, case.pattern)
                if cexpr is not None and not (isinstance(cexpr, ast.Constant)):
                    take = {self._cev(cexpr, True, s) for s in take}
                    rest = {self._cev(cexpr, False, s) for s in rest}
            mev = getattr(sp, "case_event", None)
            if mev:
                take = {s.emit(mev(node, case, s)) if mev(node, case, s) is not None else s for s in take}
            o = self.block(case.body, take, depth)
            out.merge_abrupt(o)
            out.normal |= o.normal
            cur = rest
        out.normal |= cur
        return out


# ---------------------------------------------------------------------------------------------------
# trace predicates used by many rules


def index_of(trace, pred, start=0):
    for i in range(start, len(trace)):
        if pred(trace[i]):
            return i
    return -1


def precedes(trace, first_pred, then_pred) -> bool:
    """every occurrence of then_pred is preceded by some first_pred"""
    seen = False
    for e in trace:
        if first_pred(e):
            seen = True
        if then_pred(e) and not seen:
            return False
    return True


def count(trace, pred) -> int:
    return sum(1 for e in trace if pred(e))


def followed_by(trace, a_pred, b_pred) -> bool:
    """every a is followed (later) by some b"""
    for i, e in enumerate(trace):
        if a_pred(e) and index_of(trace, b_pred, i + 1) < 0:
            return False
    return True


# ---------------------------------------------------------------------------------------------------
# a generic labeller good enough for most ordering / pairing rules


class GenericSpec(Spec):
    """Events:
      ('call', 'dotted.callee')     every call, in evaluation order (callee text as written)
      ('yield', 'ClassName')        yield ClassName(...) ; ('yield_from', 'dotted.callee') for yield from f(...)
      ('await', 'dotted.callee')    await f(...)
      ('assign', 'a.b.c')           assignment / augmented assignment to a name or attribute chain
      ('del', 'a.b.c') ('return',) ('raise', 'Cls')
    ``keep(event) -> bool`` projects onto the rule's alphabet (default: keep everything).
    ``inline_methods``: names of same-class methods / module functions to inline (resolved by ``resolver``).
    """

    def __init__(self, keep=None, resolver=None, record_conds=False, unroll=1, tracked=()):
        self._keep = keep
        self._resolver = resolver
        self.record_conds = record_conds
        self.unroll = unroll
        self.tracked = tuple(tracked)

    def events(self, node, st):
        out = []
        for n in eval_order(node):
            ev = None
            if isinstance(n, ast.Call):
                try:
                    ev = ("call", ast.unparse(n.func))
                except Exception:
                    ev = ("call", "?")
            elif isinstance(n, ast.Yield):
                ev = ("yield", last_attr(n.value.func) if isinstance(n.value, ast.Call) else (ast.unparse(n.value) if n.value is not None else ""))
            elif isinstance(n, ast.YieldFrom):
                ev = ("yield_from", ast.unparse(n.value.func) if isinstance(n.value, ast.Call) else ast.unparse(n.value))
            elif isinstance(n, ast.Await):
                ev = ("await", ast.unparse(n.value.func) if isinstance(n.value, ast.Call) else ast.unparse(n.value))
            if ev is not None and (self._keep is None or self._keep(ev)):
                out.append(ev)
        extra = []
        if isinstance(node, ast.Assign):
            for t in node.targets:
                for tt in t.elts if isinstance(t, (ast.Tuple, ast.List)) else [t]:
                    extra.append(("assign", ast.unparse(tt)))
        elif isinstance(node, (ast.AugAssign, ast.AnnAssign)):
            extra.append(("assign", ast.unparse(node.target)))
        elif isinstance(node, ast.Delete):
            for t in node.targets:
                extra.append(("del", ast.unparse(t)))
        elif isinstance(node, ast.Return):
            extra.append(("return",))
        elif isinstance(node, ast.Raise):
            extra.append(("raise", last_attr(node.exc) if node.exc is not None else ""))
        for ev in extra:
            if self._keep is None or self._keep(ev):
                out.append(ev)
        return out

    def inline(self, call, st, depth):
        if self._resolver is None:
            return None
        return self._resolver(call)


def traces_of(fn, spec: Spec | None = None, bindings: dict | None = None, init_env: dict | None = None):
    """All terminal (trace, how) pairs of ``fn``: how = 'return' | 'raise:<Cls>'. Returns (list, Engine)."""
    spec = spec or GenericSpec()
    eng = Engine(spec)
    o = eng.run(fn, State((), dict(init_env or {})), bindings)
    out = []
    for s in o.ret:
        out.append((s.trace, "return", s))
    for s in o.exc:
        e = s.get("$exc")
        out.append((s.trace, "raise:" + (e[1] if is_const(e) else "?"), s))
    return out, eng
