#!/usr/bin/env python3
"""Run the checks against a seeded change without touching /repo's working tree.

usage: tools/try_patch.py <patch.diff> [PROP ...]      (default: every property module that exists)

A scratch worktree of /repo HEAD is created under /tmp, the patch applied there, every check run with
`--repo <worktree> --no-evidence`, and the worktree removed again. Prints one line per property whose
check does not exit 0.
"""

import subprocess
import sys
import tempfile
from concurrent.futures import ThreadPoolExecutor
from pathlib import Path

VERIF = Path(__file__).resolve().parent.parent


def main():
    patch = Path(sys.argv[1]).resolve()
    props = sys.argv[2:] or sorted(p.stem for p in (VERIF / "mitmlint" / "props").glob("C*.py"))
    wt = Path(tempfile.mkdtemp(prefix="wt_eval_", dir="/tmp"))
    wt.rmdir()
    subprocess.run(["git", "-C", "/repo", "worktree", "add", "--detach", str(wt), "HEAD"], check=True, capture_output=True)
    try:
        r = subprocess.run(["git", "-C", str(wt), "apply", str(patch)], capture_output=True, text=True)
        if r.returncode:
            print("PATCH DOES NOT APPLY:", r.stderr.strip())
            return 2

        def run(p):
            r = subprocess.run([str(VERIF / "check"), p, "--tier", "quick", "--repo", str(wt), "--no-evidence"], capture_output=True, text=True, cwd=VERIF)
            return p, r.returncode, r.stdout

        hits = 0
        with ThreadPoolExecutor(12) as ex:
            for p, rc, out in ex.map(run, props):
                if rc != 0:
                    hits += 1
                    lines = [l for l in out.splitlines() if l.startswith(("VIOLATION", "ANALYSIS-ERROR")) or ": R" in l[:120]]
                    print(f"== {p} exit={rc}")
                    for l in lines[:6]:
                        print("   ", l[:300])
        if not hits:
            print("no check fired")
        return 0
    finally:
        subprocess.run(["git", "-C", "/repo", "worktree", "remove", "--force", str(wt)], capture_output=True)


if __name__ == "__main__":
    sys.exit(main())
