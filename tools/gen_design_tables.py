#!/usr/bin/env python3
"""Regenerate the machine-derived tables of DESIGN.md section 11 (between the `<!-- GEN:<name> -->` / `<!-- /GEN:<name> -->` markers):

  GEN:methods    one row per property: strength, deciding method (REG.technique), what is trusted / bounded (REG.note)
  GEN:seeds      one row per seeded change: what it breaks, which checks catch it (seeded/RESULTS.json)
  GEN:refactors  summary of the refactor corpus evaluation (refactors/RESULTS.json)

The sources are the property modules' REG blocks and the two RESULTS.json files written by tools/eval_all_seeds.py and
tools/eval_refactors.py - nothing here is hand-maintained.  usage: tools/gen_design_tables.py [--check]
"""
import importlib
import json
import re
import sys
from pathlib import Path

VERIF = Path(__file__).resolve().parent.parent
sys.path.insert(0, str(VERIF))


def esc(s: str) -> str:
    return " ".join(str(s).split()).replace("|", "\\|")


def methods() -> str:
    rows = ["| id | strength | deciding method | trusted / bounded |", "|---|---|---|---|"]
    for f in sorted((VERIF / "mitmlint" / "props").glob("C*.py")):
        m = importlib.import_module(f"mitmlint.props.{f.stem}")
        reg = m.REG
        rows.append(f"| {f.stem} | {reg.get('strength', '')} | {esc(reg.get('technique', ''))} | {esc(reg.get('note', ''))} |")
    return "\n".join(rows)


def seeds() -> str:
    res = json.loads((VERIF / "seeded" / "RESULTS.json").read_text())
    rows = ["| seed | change (needs → effect) | caught by (exit 1) | refused (exit 2) |", "|---|---|---|---|"]
    n = caught = own = 0
    missed = []
    for sd in sorted((VERIF / "seeded").iterdir()):
        if not (sd / "meta.json").exists():
            continue
        meta = json.loads((sd / "meta.json").read_text())
        r = res.get(sd.name, {})
        n += 1
        if "apply" in r:
            rows.append(f"| {sd.name} | {esc(meta.get('summary', ''))[:200]} | PATCH DOES NOT APPLY | |")
            continue
        v = sorted(p for p, x in r.items() if x["rc"] == 1)
        e = sorted(p for p, x in r.items() if x["rc"] == 2)
        rules = []
        for p in v:
            first = (r[p].get("first") or [""])[0]
            mm = re.search(r"\bR\d+\.\d+\b", first)
            rules.append(f"{p}" + (f" ({mm.group(0)})" if mm else ""))
        if v:
            caught += 1
            if meta.get("property") in v:
                own += 1
        else:
            missed.append(sd.name)
        rows.append(f"| {sd.name} | {esc(meta.get('summary', ''))[:220]} | {', '.join(rules) or '**none**'} | {', '.join(e)} |")
    head = (f"{n} seeded changes; {caught} caught by at least one check (exit 1 with a VIOLATION line), {own} of them by the check of the "
            f"property they were written against; not caught: {', '.join(missed) or 'none'}.\n\n")
    return head + "\n".join(rows)


def refactors() -> str:
    p = VERIF / "refactors" / "RESULTS.json"
    if not p.exists():
        return "(no evaluation recorded yet)"
    res = json.loads(p.read_text())
    n = len(res)
    quiet = [k for k, r in res.items() if not r]
    noapply = [k for k, r in res.items() if "apply" in r]
    fa = {k: sorted(p for p, x in r.items() if isinstance(x, dict) and x.get("rc") == 1) for k, r in res.items() if "apply" not in r}
    rf = {k: sorted(p for p, x in r.items() if isinstance(x, dict) and x.get("rc") == 2) for k, r in res.items() if "apply" not in r}
    fa = {k: v for k, v in fa.items() if v}
    rf = {k: v for k, v in rf.items() if v}
    out = [f"{n} behaviour-preserving edits × 52 quick checks: {len(quiet)} edits quiet on every check; "
           f"{len(fa)} with a false alarm (exit 1); {len(rf)} with a refusal (exit 2); {len(noapply)} stale patches."]
    for k in sorted(fa):
        out.append(f"* FALSE ALARM {k}: {', '.join(fa[k])}")
    for k in sorted(rf):
        out.append(f"* REFUSED {k}: {', '.join(rf[k])}")
    for k in sorted(noapply):
        out.append(f"* STALE {k}")
    return "\n".join(out)


def main():
    design = VERIF / "DESIGN.md"
    text = design.read_text()
    new = text
    for name, fn in (("methods", methods), ("seeds", seeds), ("refactors", refactors)):
        pat = re.compile(rf"(<!-- GEN:{name} -->\n).*?(<!-- /GEN:{name} -->)", re.S)
        if not pat.search(new):
            print(f"marker GEN:{name} missing in DESIGN.md", file=sys.stderr)
            return 2
        body = fn()
        new = pat.sub(lambda m: m.group(1) + body + "\n" + m.group(2), new)
    if "--check" in sys.argv:
        print("up to date" if new == text else "DESIGN.md tables are stale")
        return 0 if new == text else 1
    design.write_text(new)
    print("DESIGN.md tables regenerated")
    return 0


if __name__ == "__main__":
    sys.exit(main())
