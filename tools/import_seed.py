#!/usr/bin/env python3
"""Import confirmed seeded changes from a scratch output dir into /verif/seeded/<id>/.

usage: tools/import_seed.py /tmp/seed/out/C05/a [...]
Only variants whose confirm.json (written by tools/confirm_seed.py) says confirmed=true are imported.
"""
import json
import shutil
import sys
from pathlib import Path

VERIF = Path(__file__).resolve().parent.parent


def main():
    for a in sys.argv[1:]:
        d = Path(a)
        c = d / "confirm.json"
        if not c.exists():
            print("skip (unconfirmed):", d)
            continue
        conf = json.loads(c.read_text())
        if not conf.get("confirmed"):
            print("skip (NOT confirmed):", d)
            continue
        prop = d.parent.name
        sid = f"{prop}{d.name}"
        try:
            meta = json.loads((d / "meta.json").read_text())
        except Exception as e:  # agent-written json may be sloppy
            meta = {"summary": f"(meta.json unreadable: {e})"}
        out = VERIF / "seeded" / sid
        out.mkdir(parents=True, exist_ok=True)
        if not (out / "patch.diff").exists():  # never overwrite: a patch may have been re-based onto a later /repo HEAD by hand
            shutil.copy(d / "patch.diff", out / "patch.diff")
            shutil.copy(d / "demo_test.py", out / "demo_test.py")
        m = {
            "id": sid,
            "property": prop,
            "summary": meta.get("summary", ""),
            "breaks": meta.get("breaks", ""),
            "needs": meta.get("needs", ""),
            "files": meta.get("files", []),
            "author": "fresh sub-agent given only the property text and a scratch worktree",
            "author_ran": meta.get("ran", []),
            "confirmed_by_lead": {
                "how": "tools/confirm_seed.py in a scratch worktree of /repo HEAD: demo on clean tree, patch applied, compileall, demo on patched tree, full suite (-n 6, baseline failure deselected, failures re-run alone)",
                "demo_clean_rc": conf.get("demo_clean_rc"),
                "demo_patched_rc": conf.get("demo_patched_rc"),
                "suite_failed_confirmed": conf.get("suite_failed_confirmed"),
                "suite_tail": conf.get("suite_tail"),
            },
            "checks_fired_at_import": {k: v["rc"] for k, v in conf.get("checks_fired", {}).items()},
        }
        old = out / "meta.json"
        if old.exists():
            prev = json.loads(old.read_text())
            for k in ("caught_by", "status", "notes"):
                if k in prev:
                    m[k] = prev[k]
        old.write_text(json.dumps(m, indent=1) + "\n")
        print("imported", sid, "fired:", m["checks_fired_at_import"])


if __name__ == "__main__":
    main()
