#!/bin/sh
# usage: tools/run_all.sh [quick|thorough]   - runs every property module that exists, prints one status line each
cd "$(dirname "$0")/.." || exit 2
tier=${1:-quick}
for f in mitmlint/props/C*.py; do
  p=$(basename "$f" .py)
  out=$(./check "$p" --tier "$tier" 2>&1); rc=$?
  kf=$(printf '%s\n' "$out" | grep -c '^KNOWN-FINDING')
  sum=$(printf '%s\n' "$out" | grep '^mitmlint ' | tail -1 | cut -c1-150)
  echo "$p rc=$rc known=$kf | $sum"
  [ $rc -ne 0 ] && printf '%s\n' "$out" | grep -E '^(VIOLATION|ANALYSIS-ERROR)' | head -3 | cut -c1-260 | sed 's/^/      /'
done
