#!/bin/sh
# usage: tools/eval_seeded.sh <dir-with-patch.diff> ...   -> runs every check against each seeded change (scratch worktree)
cd "$(dirname "$0")/.." || exit 2
for d in "$@"; do
  [ -f "$d/patch.diff" ] || continue
  id=$(basename "$d")
  echo "#### $d  ($(python3 -c "import json;print(json.load(open('$d/meta.json')).get('summary','')[:160])" 2>/dev/null))"
  /venv/bin/python tools/try_patch.py "$d/patch.diff" 2>&1 | cut -c1-330
done
