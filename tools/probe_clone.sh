#!/bin/sh
# Fresh-restore probe: clone /verif's committed state, run setup, delete the evidence, run every registered quick_cmd against /repo,
# require rc=0, no VIOLATION line, evidence rewritten and schema-valid.  usage: tools/probe_clone.sh [jobs]
set -u
J=${1:-6}
D=$(mktemp -d /tmp/probe_XXXXXX)
git clone -q /verif "$D/verif" || exit 2
cd "$D/verif" || exit 2
sh -c "$(python3 -c "import json;print(json.load(open('MANIFEST.json'))['setup_cmd'])")" >/dev/null 2>&1 || { echo "setup failed"; exit 2; }
rm -f evidence/*.json
python3 - <<'PY' > cmds.txt
import json
for c in json.load(open('MANIFEST.json'))['checks']:
    print(c['property_id'], c['quick_cmd'])
PY
export CARGO_NET_OFFLINE=true GOPROXY=off PIP_NO_INDEX=1
cat cmds.txt | xargs -P "$J" -L 1 sh -c 'p=$0; shift 0; out=$("$@" 2>&1); rc=$?; v=$(printf "%s\n" "$out" | grep -c "^VIOLATION"); echo "$p rc=$rc violations=$v"' | sort > results.txt
bad=$(grep -v "rc=0 violations=0" results.txt | wc -l)
python3-vt - <<'PY'
import json, jsonschema, glob, sys
schema = json.load(open('/root/.vp/EVIDENCE.schema.json'))
m = json.load(open('MANIFEST.json'))
missing = 0
for c in m['checks']:
    try:
        jsonschema.validate(json.load(open(c['evidence_file'])), schema)
    except Exception as e:
        missing += 1
        print("EVIDENCE PROBLEM", c['property_id'], str(e)[:120])
print("evidence files valid:", len(m['checks']) - missing, "of", len(m['checks']))
PY
grep -v "rc=0 violations=0" results.txt
echo "probe: $(wc -l < results.txt) checks, $bad not clean"
cd /; rm -rf "$D"
[ "$bad" -eq 0 ]
