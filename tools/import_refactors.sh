#!/bin/sh
# usage: tools/import_refactors.sh /tmp/seed/rout   -> copies <prop>/<rN>/{patch.diff,what.txt} to /verif/refactors/<prop><rN>/
cd "$(dirname "$0")/.." || exit 2
for d in "$1"/C*/r*; do
  [ -s "$d/patch.diff" ] || continue
  id=$(basename "$(dirname "$d")")$(basename "$d")
  [ -d refactors/$id ] && continue
  mkdir -p refactors/$id && cp "$d/patch.diff" refactors/$id/ && cp "$d/what.txt" refactors/$id/ 2>/dev/null
  echo imported $id
done
