#!/usr/bin/env python3
"""Regenerate /verif/MANIFEST.json from mitmlint/registry.py and the property modules that exist."""

import json
import sys
from pathlib import Path

VERIF = Path(__file__).resolve().parent.parent
sys.path.insert(0, str(VERIF))

import importlib  # noqa: E402

from mitmlint.registry import ARMED  # noqa: E402
from mitmlint.registry import NOT_APPLICABLE  # noqa: E402


def reg_of(pid):
    try:
        return getattr(importlib.import_module(f"mitmlint.props.{pid}"), "REG", None)
    except ImportError:
        return None


BASE_OFF = "cd /repo && /venv/bin/python -m pytest -ra -q -p no:cacheprovider --timeout=900 --continue-on-collection-errors"


def main():
    props = [json.loads(l) for l in (VERIF / "properties.jsonl").read_text().splitlines() if l.strip()]
    checks = []
    na = []
    served = []
    for p in props:
        pid = p["id"]
        built = (VERIF / "mitmlint" / "props" / f"{pid}.py").exists()
        if pid in NOT_APPLICABLE:
            na.append({"property_id": pid, "reason": NOT_APPLICABLE[pid]})
            continue
        r = reg_of(pid) if built and pid in ARMED else None
        if r is None:
            na.append({"property_id": pid, "reason": "static check designed (DESIGN.md section 4) but not built/armed yet; not claimed until it is"})
            continue
        served.append(pid)
        checks.append(
            {
                "property_id": pid,
                "quick_cmd": f"./check {pid} --tier quick",
                "thorough_cmd": f"./check {pid} --tier thorough",
                "evidence_file": f"evidence/{pid}.json",
                "replay_cmd_template": f"./check {pid} --replay {{path}}",
                "engine": "mitmlint",
                "level_claimed": {
                    "category": "other",
                    "text": f"[{r['strength']}] static analysis: " + r["claim"] + " Decides the listed structural clauses, not the behaviour.",
                    "design_ref": f"DESIGN.md section 4 ({pid}: clauses claimed) and section 11.5 (deciding method as built)",
                },
                "level_note": r.get("note", "")
                + " Trusted base: CPython ast; the reference tables coded in the checker; library semantics named in the evidence. "
                "Nothing is executed; thorough tier additionally runs the in-memory self-test mutants of every rule.",
                "technique": r["technique"],
            }
        )
    man = {
        "version": 1,
        "setup_cmd": "./setup.sh",
        "hooks": {
            "guard": "MITMPROXY_VERIF",
            "enable": "n/a - static analysis reads /repo's source only; no instrumentation exists in /repo",
            "baseline_off_cmd": BASE_OFF,
            "source_commits": [],
            "add_only": True,
        },
        "engines": [
            {
                "name": "mitmlint",
                "path": "mitmlint/",
                "serves_properties": served,
                "kind_free_text": "repository-specific static analyser (stdlib ast): path-effect enumeration with helper inlining, "
                "typestate exploration of extracted layer models, decision tables over abstract domains, taint/def-use, "
                "may-raise vs handler coverage, registry/table agreement, regex language checks, in-memory mutant self-test",
            }
        ],
        "checks": checks,
        "notes": "All checks parse /repo's working tree on every run and never import or execute repository code. "
        "exit 0 = held (KNOWN-FINDING lines possible), exit 1 = VIOLATION, exit 2 = ANALYSIS-ERROR (anchor vanished / shape not modelled).",
        "not_applicable": na,
    }
    (VERIF / "MANIFEST.json").write_text(json.dumps(man, indent=1) + "\n")
    print(f"MANIFEST.json: {len(checks)} checks, {len(na)} not_applicable")


if __name__ == "__main__":
    main()
