#!/usr/bin/env python3
"""Run every quick check against every behaviour-preserving refactor in /verif/refactors (scratch worktrees, removed afterwards).
Any exit != 0 here is a false alarm (exit 1) or a refusal (exit 2) on code where the property still holds.

usage: tools/eval_all_seeds.py [-j N] [seed-id ...]      -> writes seeded/RESULTS.json and prints one line per seed
A seed counts as *caught* when the check of its own property (or any other check) exits 1 with a VIOLATION line;
exit 2 (ANALYSIS-ERROR: the change produced a shape the rule refuses to model) is listed separately as 'refused'.
"""
import json
import subprocess
import sys
import tempfile
from concurrent.futures import ThreadPoolExecutor
from pathlib import Path

VERIF = Path(__file__).resolve().parent.parent
DIRNAME = "refactors"


def run_seed(sd: Path, props):
    wt = Path(tempfile.mkdtemp(prefix="wt_seed_", dir="/tmp"))
    wt.rmdir()
    subprocess.run(["git", "-C", "/repo", "worktree", "add", "--detach", str(wt), "HEAD"], check=True, capture_output=True)
    try:
        r = subprocess.run(["git", "-C", str(wt), "apply", str(sd / "patch.diff")], capture_output=True, text=True)
        if r.returncode:
            return {"apply": r.stderr.strip()[:200]}
        out = {}
        for p in props:
            r = subprocess.run([str(VERIF / "check"), p, "--tier", "quick", "--repo", str(wt), "--no-evidence"], capture_output=True, text=True, cwd=VERIF)
            if r.returncode != 0:
                lines = [l[:260] for l in r.stdout.splitlines() if l.startswith("ANALYSIS-ERROR") or (": R" in l[:140] and " — " in l)]
                out[p] = {"rc": r.returncode, "first": lines[:2]}
        return out
    finally:
        subprocess.run(["git", "-C", "/repo", "worktree", "remove", "--force", str(wt)], capture_output=True)


def main():
    args = sys.argv[1:]
    j = 6
    if "-j" in args:
        i = args.index("-j")
        j = int(args[i + 1])
        del args[i:i + 2]
    props = sorted(p.stem for p in (VERIF / "mitmlint" / "props").glob("C*.py"))
    only = None
    if "--props" in args:  # re-evaluate only these checks and merge their verdicts into the recorded RESULTS.json
        i = args.index("--props")
        only = args[i + 1].split(",")
        del args[i:i + 2]
        props = [p for p in props if p in only]
    seeds = sorted(d for d in (VERIF / DIRNAME).iterdir() if (d / "patch.diff").exists() and (not args or d.name in args))
    results = {}
    with ThreadPoolExecutor(j) as ex:
        for sd, res in zip(seeds, ex.map(lambda s: run_seed(s, props), seeds)):
            results[sd.name] = res
            own = sd.name[:3]
            if "apply" in res:
                status = "PATCH-DOES-NOT-APPLY " + res["apply"]
            else:
                v = sorted(p for p, x in res.items() if x["rc"] == 1)
                e = sorted(p for p, x in res.items() if x["rc"] == 2)
                status = "quiet" if not (v or e) else ("FALSE ALARM (exit 1): " + ",".join(v) if v else "") + (" REFUSED (exit 2): " + ",".join(e) if e else "")
                for pp in v + e:
                    for l in res[pp]["first"][:1]:
                        status += "\n      " + l
            print(f"{sd.name}: {status}", flush=True)
    if not args:
        out = VERIF / DIRNAME / "RESULTS.json"
        if only is not None and out.exists():
            old = json.loads(out.read_text())
            for k, res in results.items():
                if "apply" in res:
                    old[k] = res
                    continue
                cur = {p: v for p, v in old.get(k, {}).items() if p not in only and p != "apply"}
                cur.update(res)
                old[k] = cur
            results = old
        out.write_text(json.dumps(results, indent=1, sort_keys=True) + "\n")


if __name__ == "__main__":
    main()
