#!/bin/sh
# usage: tools/eval_refactors.sh <dir>...  (each dir holds patch.diff of a behaviour-preserving refactor): any exit!=0 is a false alarm (1) or a fail-closed refusal (2)
cd "$(dirname "$0")/.." || exit 2
for d in "$@"; do
  [ -f "$d/patch.diff" ] || continue
  echo "#### $d  ($(head -c 160 "$d/what.txt" 2>/dev/null | tr '\n' ' '))"
  /venv/bin/python tools/try_patch.py "$d/patch.diff" 2>&1 | cut -c1-300
done
