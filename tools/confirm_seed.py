#!/usr/bin/env python3
"""Confirm a seeded change independently, in a scratch worktree (never in /repo's working tree).

usage: tools/confirm_seed.py <dir with patch.diff + demo_test.py> [--no-suite] [-n N]

Steps (all in /tmp/seed_confirm_<pid>, a detached worktree of /repo HEAD, removed afterwards):
  1. demo on the clean tree must PASS
  2. patch applies; the package still byte-compiles
  3. demo on the patched tree must FAIL
  4. the repository's test suite on the patched tree: only the baseline's always-failing test may fail
  5. every mitmlint quick check is run against the patched tree (`--repo`, `--no-evidence`); the ones that
     do not exit 0 are listed
Writes <dir>/confirm.json and prints a one-line verdict.
"""

import json
import os
import re
import subprocess
import sys
import tempfile
from concurrent.futures import ThreadPoolExecutor
from pathlib import Path

VERIF = Path(__file__).resolve().parent.parent
PY = "/venv/bin/python"
KNOWN_FAIL = "test/mitmproxy/contentviews/test__view_urlencoded.py::test_view_urlencoded"


def sh(cmd, cwd=None, env=None, timeout=1800):
    e = dict(os.environ)
    e.update(env or {})
    try:
        r = subprocess.run(cmd, cwd=cwd, env=e, capture_output=True, text=True, errors="replace", timeout=timeout)
        return r.returncode, r.stdout + r.stderr
    except subprocess.TimeoutExpired as x:
        return 124, f"TIMEOUT {x}"


def demo(wt, demo_file):
    return sh([PY, "-m", "pytest", "-q", "-p", "no:cacheprovider", "--timeout=600", str(demo_file)], cwd=wt, env={"PYTHONPATH": str(wt)})


def main():
    args = [a for a in sys.argv[1:] if not a.startswith("-")]
    d = Path(args[0]).resolve()
    nosuite = "--no-suite" in sys.argv
    nproc = "8"
    if "-n" in sys.argv:
        nproc = sys.argv[sys.argv.index("-n") + 1]
        args = [a for a in args if a != nproc]
    patch = d / "patch.diff"
    demo_src = d / "demo_test.py"
    res = {"dir": str(d)}
    wt = Path(tempfile.mkdtemp(prefix="seed_confirm_", dir="/tmp"))
    wt.rmdir()
    subprocess.run(["git", "-C", "/repo", "worktree", "add", "--detach", str(wt), "HEAD"], check=True, capture_output=True)
    try:
        # the demo is copied next to the worktree root so that relative imports of test helpers work
        demo_file = wt / "_seed_demo_test.py"
        demo_file.write_text(demo_src.read_text())
        rc, out = demo(wt, demo_file)
        res["demo_clean_rc"] = rc
        res["demo_clean_tail"] = out.strip().splitlines()[-1:] if out.strip() else []
        rc, out = sh(["git", "-C", str(wt), "apply", str(patch)])
        res["apply_rc"] = rc
        if rc:
            res["apply_err"] = out[-400:]
        rc, out = sh([PY, "-m", "compileall", "-q", "mitmproxy"], cwd=wt)
        res["compile_rc"] = rc
        rc, out = demo(wt, demo_file)
        res["demo_patched_rc"] = rc
        res["demo_patched_tail"] = [l for l in out.splitlines() if re.search(r"(Error|assert|FAILED|failed|passed)", l)][-6:]
        demo_file.unlink()
        if not nosuite:
            rc, out = sh([PY, "-m", "pytest", "-q", "-p", "no:cacheprovider", "--timeout=900", "-n", nproc, "--deselect", KNOWN_FAIL], cwd=wt, env={"PYTHONPATH": str(wt)}, timeout=3000)
            failed = sorted(set(re.findall(r"^(?:FAILED|ERROR) (\S+)", out, re.M)))
            # re-run failures alone once (timing-sensitive tests flake under load)
            still = []
            for t in failed:
                rc2, _ = sh([PY, "-m", "pytest", "-q", "-p", "no:cacheprovider", "--timeout=900", t], cwd=wt, env={"PYTHONPATH": str(wt)})
                if rc2:
                    still.append(t)
            res["suite_rc"] = rc
            res["suite_failed_first"] = failed
            res["suite_failed_confirmed"] = still
            res["suite_tail"] = out.strip().splitlines()[-1:]
        props = sorted(p.stem for p in (VERIF / "mitmlint" / "props").glob("C*.py"))

        def run(p):
            r = subprocess.run([str(VERIF / "check"), p, "--tier", "quick", "--repo", str(wt), "--no-evidence"], capture_output=True, text=True, cwd=VERIF)
            lines = [l[:400] for l in r.stdout.splitlines() if l.startswith(("VIOLATION", "ANALYSIS-ERROR")) or re.match(r"\S+:\d+: R", l)]
            return p, r.returncode, lines

        fired = {}
        with ThreadPoolExecutor(8) as ex:
            for p, rc, lines in ex.map(run, props):
                if rc != 0:
                    fired[p] = {"rc": rc, "lines": lines[:8]}
        res["checks_fired"] = fired
    finally:
        subprocess.run(["git", "-C", "/repo", "worktree", "remove", "--force", str(wt)], capture_output=True)
    ok = (
        res.get("demo_clean_rc") == 0
        and res.get("apply_rc") == 0
        and res.get("compile_rc") == 0
        and res.get("demo_patched_rc") not in (0, None)
        and (nosuite or not res.get("suite_failed_confirmed"))
    )
    res["confirmed"] = bool(ok)
    (d / "confirm.json").write_text(json.dumps(res, indent=1))
    print(f"{d}: confirmed={ok} demo_clean={res.get('demo_clean_rc')} demo_patched={res.get('demo_patched_rc')} "
          f"suite_failed={res.get('suite_failed_confirmed')} fired={ {k: v['rc'] for k, v in res.get('checks_fired', {}).items()} }")
    return 0


if __name__ == "__main__":
    sys.exit(main())
