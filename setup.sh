#!/bin/sh
# Offline setup: mitmlint is pure stdlib Python (ast only). Nothing to build; just verify the interpreter.
cd "$(dirname "$0")" || exit 1
PY=/venv/bin/python
[ -x "$PY" ] || PY=$(command -v python3-vt || command -v python3)
"$PY" -c "import ast, sys; assert sys.version_info >= (3, 10); print('mitmlint setup ok', sys.version.split()[0])"
