"""F-C47b: a failing mitmweb edit of an already-edited flow does not leave the flow "exactly as it was":
FlowHandler.put calls flow.backup() (a no-op when a backup from an earlier, successful edit exists) and on failure
flow.revert(), which restores the OLDEST backup - the earlier successful edit is silently undone as well
(and the user's revert point is dropped).  Mirrors FlowHandler.put without the HTTP plumbing.
Run: /venv/bin/python repro.py (cwd /repo)
"""
from mitmproxy.test import tflow

f = tflow.tflow(resp=True)
# edit 1 (valid): what PUT {"comment": "first edit"} does
f.backup()
f.comment = "first edit"
before = f.get_state()
# edit 2 (invalid part after a valid part): PUT {"request": {"method": "X", "port": "abc"}}
f.backup()
try:
    f.request.method = "X"
    f.request.port = int("abc")
except Exception:
    f.revert()
after = f.get_state()
print("comment before failing edit:", repr(before["comment"]), " after:", repr(after["comment"]))
print("DEFECT: failing edit also undid the earlier successful edit" if after["comment"] != before["comment"] else "ok")
