"""F-C47b against the real FlowHandler.put (unwrapped): a failing second edit must leave the first edit in place."""
import sys, types
sys.path.insert(0, "/repo")
from mitmproxy.test import tflow
from mitmproxy.tools.web import app

put = app.FlowHandler.put
put = getattr(put, "__wrapped__", put)
f = tflow.tflow(resp=True)
def handler(js):
    h = types.SimpleNamespace(flow=f, json=js, view=types.SimpleNamespace(update=lambda flows: None))
    return h
put(handler({"comment": "first edit"}), f.id)
try:
    put(handler({"request": {"method": "X", "port": "abc"}}), f.id)
except Exception as e:
    print("second edit failed with", type(e).__name__)
print("comment:", repr(f.comment), "method:", f.request.method, "modified:", f.modified())
ok = f.comment == "first edit" and f.request.method == "GET"
print("ok" if ok else "DEFECT")
f.revert(); print("after user revert comment:", repr(f.comment))
sys.exit(0 if ok else 1)
