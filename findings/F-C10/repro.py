"""F-C10: TimeoutWatchdog.watch fires the inactivity callback while a hook is pending.
A disarm() block entered during the watchdog's sleep and still open at wake-up must
suppress the timeout; before the fix the callback runs although blocker > 0.
"""
import asyncio
import sys

from mitmproxy.proxy.server import TimeoutWatchdog


async def main() -> int:
    fired_while_blocked = []

    async def callback():
        fired_while_blocked.append(watchdog.blocker)

    watchdog = TimeoutWatchdog(0.2, callback)
    task = asyncio.ensure_future(watchdog.watch())
    await asyncio.sleep(0.05)  # the watchdog is sleeping now
    with watchdog.disarm():  # a hook starts ...
        await asyncio.sleep(0.4)  # ... and is still pending when the watchdog wakes up
        if fired_while_blocked:
            print(f"FAIL: callback fired while blocker={fired_while_blocked[0]}")
            return 1
    # after the hook is done, the timeout must still work.
    await asyncio.sleep(0.4)
    task.cancel()
    if fired_while_blocked != [0]:
        print(f"FAIL: expected one callback after the hook finished, got {fired_while_blocked}")
        return 1
    print("OK: callback suppressed while hook pending, fired afterwards")
    return 0


sys.exit(asyncio.run(main()))
