"""F-C25b: DNSMessage.unpack raises ValueError (not struct.error) -> escapes DNSLayer.state_query's handler.

A compressible RR (type NS) whose RDATA holds a compression pointer to a name with a label that contains
'.' (here the owner name b"\x01.\x00"): unpack_from_with_compression returns the name ".", then
decompress_from_record_data calls domain_names.pack(".") inside `try ... except struct.error`, and pack raises
ValueError("contains empty labels").  Run: /venv/bin/python repro.py (cwd /repo)
"""
import struct
from mitmproxy import dns

hdr = struct.pack("!HHHHHH", 1, 0x8000, 0, 1, 0, 0)
rdata = b"\xc0\x0c"  # pointer to offset 12 = owner name
rr = b"\x01.\x00" + struct.pack("!HHIH", 2, 1, 60, len(rdata)) + rdata
try:
    dns.DNSMessage.unpack(hdr + rr)
    print("no exception")
except struct.error as e:
    print("OK struct.error", e)
except Exception as e:
    print("DEFECT", type(e).__name__, e)
