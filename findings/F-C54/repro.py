"""F-C54: StickyCookie.request matches cookie paths with a plain startswith().
A cookie set with Path=/foo is replayed on requests to /foobar, which is not a path-match
per RFC 6265 section 5.1.4 (the prefix must end in "/" or be followed by "/").
"""
import sys

from mitmproxy.addons import stickycookie
from mitmproxy.test import taddons
from mitmproxy.test import tflow

failed = False
for cookie_path, request_path, expected in [
    ("/foo", "/foobar", False),
    ("/foo", "/foo.txt", False),
    # unchanged
    ("/foo", "/foo", True),
    ("/foo", "/foo/", True),
    ("/foo", "/foo/bar", True),
    ("/foo", "/foo?x=1", True),
    ("/foo", "/foo/bar?x=/1", True),
    ("/foo/", "/foo/bar", True),
    ("/foo/", "/foo", False),
    ("/", "/anything", True),
    ("/foo", "/bar", False),
]:
    sc = stickycookie.StickyCookie()
    with taddons.context(sc) as tctx:
        tctx.configure(sc, stickycookie=".*")
        f = tflow.tflow(resp=True)
        f.request.path = cookie_path
        f.response.headers["set-cookie"] = f"sid=secret; Path={cookie_path}"
        sc.response(f)

        f2 = tflow.tflow()
        f2.request.path = request_path
        sc.request(f2)
        sent = "cookie" in f2.request.headers
    if sent != expected:
        failed = True
        print(f"FAIL: cookie Path={cookie_path} request {request_path}: sent={sent}, expected {expected}")
    else:
        print(f"ok: cookie Path={cookie_path} request {request_path}: sent={sent}")
sys.exit(1 if failed else 0)
