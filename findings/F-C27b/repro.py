"""Suspected defect (observation made while hardening C27): a DNS message id that is reused on the same connection after a
completed exchange is answered with the *previous* exchange's response - DNSLayer.flows keeps the flow, handle_request stores the
new query in flow.request, sees flow.response still set and replays it.  The client receives, for its query (id 5, other.example.org),
a reply whose question/answers belong to dns.google.
Run: cd /repo && /venv/bin/python /verif/findings/F-C27b/repro.py"""
import sys

sys.path.insert(0, "/repo")
from mitmproxy.dns import DNSMessage, Question
from mitmproxy.proxy.commands import SendData
from mitmproxy.proxy.events import DataReceived
from mitmproxy.proxy.layers import dns
from mitmproxy.test.tutils import tdnsreq, tdnsresp
from mitmproxy.proxy import commands, events

from mitmproxy.proxy import context
from mitmproxy import options
from mitmproxy.connection import Client, ConnectionState

client = Client(peername=("127.0.0.1", 1234), sockname=("127.0.0.1", 53), transport_protocol="udp", timestamp_start=1)
tctx = context.Context(client, options.Options())
tctx.server.address = ("8.8.8.8", 53)
tctx.server.transport_protocol = "udp"
tctx.server.state = ConnectionState.OPEN
layer = dns.DNSLayer(tctx)


def feed(ev):
    """deliver an event, answer every hook with 'no change', return the non-hook commands"""
    out, todo = [], [ev]
    while todo:
        for c in layer.handle_event(todo.pop(0)):
            if isinstance(c, commands.StartHook):
                todo.append(events.HookCompleted(c, None))
            elif not isinstance(c, commands.Log):
                out.append(c)
    return out


q1, r1 = tdnsreq(id=5), tdnsresp(id=5)
q2 = tdnsreq(id=5, questions=[Question("other.example.org", 1, 1)])
feed(events.Start())
assert [(type(c), c.connection, c.data) for c in feed(DataReceived(tctx.client, q1.packed))] == [(SendData, tctx.server, q1.packed)]
assert [(type(c), c.connection, c.data) for c in feed(DataReceived(tctx.server, r1.packed))] == [(SendData, tctx.client, r1.packed)]
out = feed(DataReceived(tctx.client, q2.packed))
print("second query: id 5,", q2.questions[0].name)
for c in out:
    m = DNSMessage.unpack(c.data)
    print("  ->", "client" if c.connection is tctx.client else "server", "id", m.id, "question", m.questions[0].name, "answers", [str(a) for a in m.answers])
if [(c.connection, c.data) for c in out] == [(tctx.server, q2.packed)]:
    print("OK: the second query is forwarded upstream as a query of its own")
else:
    print("REPRODUCED: the client is sent the previous exchange's answer for a different question; nothing is asked upstream")
    sys.exit(1)
