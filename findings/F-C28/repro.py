"""F-C28: Fragmentizer corrupts modified TEXT messages at fragment boundaries.
The UTF-8 bytes are cut every FRAGMENT_SIZE bytes and each piece is decoded on its own, so a
multi-byte character straddling the cut is replaced by U+FFFD in the forwarded message.
"""
import sys

import wsproto.events

from mitmproxy.proxy.layers.websocket import Fragmentizer

failed = False


def check(name, f, text):
    global failed
    msgs = list(f(text.encode()))
    joined = "".join(m.data for m in msgs)
    finished = [m.message_finished for m in msgs]
    if joined != text or finished != [False] * (len(msgs) - 1) + [True]:
        failed = True
        bad = joined.count("�")
        print(f"FAIL: {name}: {len(msgs)} fragments, {bad} U+FFFD characters introduced")
    else:
        print(f"ok: {name}: {len(msgs)} fragments, sizes {[len(m.data.encode()) for m in msgs]}")


# modified message (length differs from the original fragments) -> rechunked
check("rechunk", Fragmentizer([b"foo"], True), "a" * 3999 + "€" + "b" * 5000 + "\U0001f600" * 1000)
# modified message with the same byte length -> original sizes are reused
check("keep sizes", Fragmentizer(["ä".encode(), "ä".encode()], True), "aäa")
# unchanged behaviour
assert list(Fragmentizer([b"foo", b"bar"], True)(b"foobaz")) == [
    wsproto.events.TextMessage("foo", message_finished=False),
    wsproto.events.TextMessage("baz", message_finished=True),
]
assert list(Fragmentizer([], True)(b"\xff")) == [wsproto.events.TextMessage("�", message_finished=True)]
sys.exit(1 if failed else 0)
