"""F-C27: DNSLayer.state_query creates a flow for an unsolicited message from the server.
A server message whose id matches no pending query hits the `except KeyError` branch, a new
request-less DNSFlow is created and dns_response fires for it (and it is sent to the client).
"""
import sys
import time

sys.path.insert(0, "/repo")

from mitmproxy import dns
from mitmproxy import options
from mitmproxy.proxy import commands
from mitmproxy.proxy import context
from mitmproxy.proxy import events
from mitmproxy.proxy.layers import dns as dns_layer
from mitmproxy.test import tflow
from mitmproxy.test.tutils import tdnsreq
from mitmproxy.test.tutils import tdnsresp

ctx = context.Context(tflow.tclient_conn(), options.Options())
ctx.client.transport_protocol = "udp"
ctx.server.transport_protocol = "udp"
ctx.server.address = ("8.8.8.8", 53)
ctx.server.timestamp_start = time.time()  # connected
from mitmproxy.connection import ConnectionState
ctx.server.state = ConnectionState.OPEN

layer = dns_layer.DNSLayer(ctx)
assert list(layer.handle_event(events.Start())) == []

resp = tdnsresp()
resp.id = 4242  # nobody asked for this
cmds = []
gen = layer.handle_event(events.DataReceived(ctx.server, dns_layer.pack_message(resp, "udp")))
for cmd in gen:
    cmds.append(cmd)
    if isinstance(cmd, commands.StartHook):
        break  # a hook would block here.

hooks = [c for c in cmds if isinstance(c, commands.StartHook)]
if hooks:
    flow = hooks[0].flow
    print(f"FAIL: {type(hooks[0]).__name__} fired for unsolicited server message; flow has request: {hasattr(flow, 'request')}")
    sys.exit(1)
if 4242 in layer.flows:
    print("FAIL: a flow was created for an unsolicited server message")
    sys.exit(1)
if any(isinstance(c, commands.SendData) for c in cmds):
    print("FAIL: unsolicited server message was forwarded")
    sys.exit(1)
print("OK: unsolicited server message dropped:", [type(c).__name__ for c in cmds])
