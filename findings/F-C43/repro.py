"""F-C43: View.add / View.update ignore the "show marked only" mode.
With show_marked on, _refilter keeps only marked flows, but add() and update() insert any
flow matching the filter, so an unmarked new (or updated) flow shows up in the view.
"""
import sys

from mitmproxy.addons import view
from mitmproxy.test import taddons
from mitmproxy.test import tflow

failed = False


def check(cond, what):
    global failed
    if not cond:
        failed = True
        print("FAIL:", what)
    else:
        print("ok:", what)


v = view.View()
with taddons.context(v):
    marked = tflow.tflow()
    marked.marked = ":default:"
    v.add([marked])
    v.toggle_marked()
    assert v.show_marked and list(v) == [marked]

    new = tflow.tflow()
    v.add([new])
    check(new not in v, "unmarked flow added in marked-only mode stays out of the view")
    check(v.get_by_id(new.id) is new, "... but is in the store")

    v.update([new])
    check(new not in v, "unmarked flow updated in marked-only mode stays out of the view")

    new.marked = ":default:"
    v.update([new])
    check(new in v, "flow marked later enters the view on update")

    new.marked = ""
    v.update([new])
    check(new not in v, "flow unmarked later leaves the view on update")

    v.toggle_marked()
    check(list(v) == [marked, new] or set(v) == {marked, new}, "all flows are back after leaving marked-only mode")

    # unchanged: filter still applies
    v.set_filter_cmd("~m POST")
    get = tflow.tflow()
    v.add([get])
    check(get not in v, "flow not matching the filter stays out of the view")
sys.exit(1 if failed else 0)
