"""F-C18: alpn_select_callback ignores a known upstream ALPN the client did not offer.
With server_alpn=b"h2" and client offers [b"http/1.1"] the callback must answer
NO_OVERLAPPING_PROTOCOLS; before the fix it falls through and selects b"http/1.1".
"""
import sys

from OpenSSL import SSL

from mitmproxy.addons import tlsconfig

conn = SSL.Connection(SSL.Context(SSL.SSLv23_METHOD))
conn.set_app_data(tlsconfig.AppData(server_alpn=b"h2", http2=True, client_alpn=None))
got = tlsconfig.alpn_select_callback(conn, [b"http/1.1"])
if got is not SSL.NO_OVERLAPPING_PROTOCOLS:
    print(f"FAIL: server negotiated h2, client offered only http/1.1, selected {got!r}")
    sys.exit(1)

# unchanged behaviour
conn.set_app_data(tlsconfig.AppData(server_alpn=b"", http2=True, client_alpn=None))
assert tlsconfig.alpn_select_callback(conn, [b"http/1.1"]) is SSL.NO_OVERLAPPING_PROTOCOLS
conn.set_app_data(tlsconfig.AppData(server_alpn=None, http2=True, client_alpn=None))
assert tlsconfig.alpn_select_callback(conn, [b"http/1.1"]) == b"http/1.1"
conn.set_app_data(tlsconfig.AppData(server_alpn=b"h2", http2=True, client_alpn=None))
assert tlsconfig.alpn_select_callback(conn, [b"http/1.1", b"h2"]) == b"h2"
print("OK: NO_OVERLAPPING_PROTOCOLS when the server's ALPN was not offered")
