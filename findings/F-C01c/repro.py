"""F-C01c: while a chunked HTTP/1 body is streamed, an empty data event (a stream modifier - flow.request.stream / flow.response.stream
callable - that swallows a chunk by returning b"") is written as "0\\r\\n\\r\\n", i.e. as the LAST-CHUNK: the peer sees the message end
early and parses the remaining chunks as the next message.
Run: cd /repo && /venv/bin/python /verif/findings/F-C01c/repro.py"""
import sys

sys.path.insert(0, ".")
from mitmproxy import connection, options
from mitmproxy.addons.proxyserver import Proxyserver
from mitmproxy.proxy import commands, context, events
from mitmproxy.proxy.layers import http
from mitmproxy.proxy.layers.http import HTTPMode

opts = options.Options()
Proxyserver().load(opts)
tctx = context.Context(
    connection.Client(peername=("client", 1234), sockname=("127.0.0.1", 8080), timestamp_start=1, state=connection.ConnectionState.OPEN), opts
)
layer = http.HttpLayer(tctx, HTTPMode.regular)
to_client, to_server = bytearray(), bytearray()


def drop_secrets(data: bytes) -> bytes:
    return b"" if b"secret" in data else data


def feed(ev):
    todo = [ev]
    while todo:
        for c in layer.handle_event(todo.pop(0)):
            if isinstance(c, commands.StartHook):
                if isinstance(c, http.HttpRequestHeadersHook):
                    c.flow.request.stream = drop_secrets
                todo.append(events.HookCompleted(c, None))
            elif isinstance(c, commands.OpenConnection):
                c.connection.state = connection.ConnectionState.OPEN
                todo.append(events.OpenConnectionCompleted(c, None))
            elif isinstance(c, commands.SendData):
                (to_client if c.connection is tctx.client else to_server).extend(c.data)


feed(events.Start())
feed(events.DataReceived(tctx.client, b"POST http://example.com/upload HTTP/1.1\r\nHost: example.com\r\nTransfer-Encoding: chunked\r\n\r\n"))
feed(events.DataReceived(tctx.client, b"6\r\nsecret\r\n"))
feed(events.DataReceived(tctx.client, b"28\r\nGET /admin HTTP/1.1\r\nHost: example.com\r\n\r\n\r\n"))
feed(events.DataReceived(tctx.client, b"0\r\n\r\n"))
print("bytes written to the server:")
print(bytes(to_server).decode())
head, _, body = bytes(to_server).partition(b"\r\n\r\n")
if body.startswith(b"0\r\n\r\n") and len(body) > 5:
    print("REPRODUCED: the dropped chunk was written as the last-chunk; the server takes the rest for a new request")
    sys.exit(1)
print("OK: a swallowed chunk writes nothing")
