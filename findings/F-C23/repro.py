"""F-C23: Proxyserver.server_connect only recognises three literal spellings of localhost.
Connecting to the listen port via 127.0.0.2, LOCALHOST, "localhost.", ::ffff:127.0.0.1,
0.0.0.0 or :: is not detected as a self-connect before the fix (server.error stays None).
"""
import asyncio
import sys

from mitmproxy.addons.proxyserver import Proxyserver
from mitmproxy.proxy import server_hooks
from mitmproxy.test import taddons
from mitmproxy.test.tflow import tclient_conn
from mitmproxy.test.tflow import tserver_conn


async def main() -> int:
    ps = Proxyserver()
    failed = False
    with taddons.context(ps) as tctx:
        tctx.configure(ps, listen_host="127.0.0.1", listen_port=0)
        assert await ps.setup_servers()
        ps.running()
        port = ps.servers["regular"].listen_addrs[0][1]

        def check(host, p, expect_blocked):
            nonlocal failed
            server = tserver_conn()
            server.address = (host, p)
            ps.server_connect(server_hooks.ServerConnectionHookData(server, tclient_conn()))
            blocked = server.error is not None
            if blocked != expect_blocked:
                failed = True
                print(f"FAIL: {host!r}:{'listen port' if p == port else p}: blocked={blocked}, expected {expect_blocked}")

        for host in [
            "localhost", "127.0.0.1", "::1",  # recognised today
            "127.0.0.2", "LOCALHOST", "localhost.", "LocalHost.", "::ffff:127.0.0.1",
            "0.0.0.0", "::", "0:0:0:0:0:0:0:1",
        ]:
            check(host, port, True)
        # must not be blocked
        check("example.com", port, False)
        check("192.0.2.1", port, False)
        check("notlocalhost", port, False)
        check("127.0.0.2", port + 1 if port < 65535 else port - 1, False)

        tctx.configure(ps, server=False)
        assert await ps.setup_servers()
    if failed:
        return 1
    print("OK: all spellings of the local host are recognised as self-connect")
    return 0


sys.exit(asyncio.run(main()))
