"""F-C07: BufferedH2Connection.send_data drops END_STREAM when the data is larger than one frame.

send_data(stream_id, data, end_stream=True) with len(data) > max_outbound_frame_size re-submits every
slice with end_stream=False and returns, so the stream is never ended.  The one caller that passes data
together with end_stream=True is the HTTP/2 error page (Http2Connection._handle_event, ResponseProtocolError):
an HTTP/2 client whose request fails validation with a long message (here: an over-long :scheme) gets the
error body but never END_STREAM - "the client receives an error" is never completed.

Part 1 drives the class directly; part 2 drives the real HttpLayer with a real h2 client.
"""
import sys

sys.path.insert(0, "/repo")

import h2.config
import h2.connection
import h2.events

from mitmproxy.proxy.layers.http._http_h2 import BufferedH2Connection

fail = False

# ---- part 1: the class on its own
srv = BufferedH2Connection(h2.config.H2Configuration(client_side=False, header_encoding=False, validate_outbound_headers=False))
cli = h2.connection.H2Connection(h2.config.H2Configuration(client_side=True))
cli.initiate_connection()
cli.update_settings({h2.settings.SettingCodes.INITIAL_WINDOW_SIZE: 2**20})
cli.increment_flow_control_window(2**20)
cli.send_headers(1, [(":method", "GET"), (":scheme", "http"), (":authority", "a"), (":path", "/")], end_stream=True)
srv.initiate_connection()
srv.receive_data(cli.data_to_send())
cli.receive_data(srv.data_to_send())
srv.receive_data(cli.data_to_send())
srv.send_headers(1, [(b":status", b"400")])
body = b"x" * (srv.max_outbound_frame_size + 1)
srv.send_data(1, body, end_stream=True)
evs = cli.receive_data(srv.data_to_send())
got = sum(len(e.data) for e in evs if isinstance(e, h2.events.DataReceived))
ended = any(isinstance(e, h2.events.StreamEnded) for e in evs)
print(f"part 1: client got {got} of {len(body)} bytes, StreamEnded={ended}")
if got != len(body) or not ended:
    fail = True

# ---- part 2: through HttpLayer, real client bytes
from mitmproxy.proxy.commands import SendData
from mitmproxy.proxy.events import DataReceived
from mitmproxy.proxy.layers import http
from mitmproxy.proxy.layers.http import HTTPMode
from mitmproxy.test import tflow
from mitmproxy import options
from mitmproxy.proxy import context
from mitmproxy.proxy import events as pevents
from mitmproxy.proxy import commands as pcommands

from mitmproxy.addons.proxyserver import Proxyserver

opts = options.Options()
Proxyserver().load(opts)
ctx = context.Context(tflow.tclient_conn(), opts)
ctx.client.alpn = b"h2"
layer = http.HttpLayer(ctx, HTTPMode.regular)
cli = h2.connection.H2Connection(h2.config.H2Configuration(client_side=True, validate_outbound_headers=False, normalize_outbound_headers=False))
cli.initiate_connection()
cli.increment_flow_control_window(2**20)
cli.update_settings({h2.settings.SettingCodes.INITIAL_WINDOW_SIZE: 2**20})
cli.send_headers(1, [(":method", "GET"), (":scheme", "h" * 20000), (":authority", "example.com"), (":path", "/")], end_stream=True)


def pump(ev):
    out = []
    gen = layer.handle_event(ev)
    for cmd in gen:
        if isinstance(cmd, SendData) and cmd.connection is ctx.client:
            out.append(cmd.data)
        elif isinstance(cmd, pcommands.StartHook):
            # hooks are answered immediately (no addon touches the flow)
            out.extend(pump(pevents.HookCompleted(cmd)))
    return out


sent = pump(pevents.Start())
sent += pump(DataReceived(ctx.client, cli.data_to_send()))
evs = []
for chunk in sent:
    evs += cli.receive_data(chunk)
    back = cli.data_to_send()
    if back:
        for c2 in pump(DataReceived(ctx.client, back)):
            evs += cli.receive_data(c2)
status = [dict(e.headers).get(b":status", dict(e.headers).get(":status")) for e in evs if isinstance(e, h2.events.ResponseReceived)]
got = sum(len(e.data) for e in evs if isinstance(e, h2.events.DataReceived))
ended = any(isinstance(e, (h2.events.StreamEnded, h2.events.StreamReset)) for e in evs)
print(f"part 2: status={status} error page bytes={got} stream ended/reset={ended}")
if not status or not ended:
    fail = True

print("FAIL: END_STREAM is lost for data larger than one frame" if fail else "OK: END_STREAM is delivered after the last slice")
sys.exit(1 if fail else 0)
