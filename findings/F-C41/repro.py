"""F-C41: HAR import maps mitmproxy's own exported httpVersion strings to "HTTP/1.1".
savehar writes flow.request.http_version verbatim ("HTTP/1.0", "HTTP/2.0"), but request_to_flow
only knows "http/2.0", "HTTP/2" and "HTTP/3", so an export/import round trip changes the version.
"""
import sys

from mitmproxy.io.har import request_to_flow


def entry(version: str) -> dict:
    return {
        "startedDateTime": "2023-04-03T12:00:00.000+00:00",
        "time": 1,
        "timings": {},
        "request": {
            "method": "GET",
            "url": "http://example.com/",
            "httpVersion": version,
            "headers": [],
        },
        "response": {
            "status": 200,
            "httpVersion": version,
            "headers": [],
            "content": {"text": ""},
        },
    }


only = sys.argv[1:]  # optionally restrict to some versions
failed = False
for version, expected in [
    ("HTTP/1.0", "HTTP/1.0"),
    ("HTTP/2.0", "HTTP/2.0"),
    ("HTTP/3", "HTTP/3"),
    # unchanged
    ("HTTP/1.1", "HTTP/1.1"),
    ("HTTP/2", "HTTP/2"),
    ("http/2.0", "HTTP/2"),
    ("h3", "HTTP/1.1"),
    ("", "HTTP/1.1"),
]:
    if only and version not in only:
        continue
    f = request_to_flow(entry(version))
    got = (f.request.http_version, f.response.http_version)
    if got != (expected, expected):
        failed = True
        print(f"FAIL: httpVersion {version!r} imported as {got}, expected {expected!r}")
    else:
        print(f"ok: httpVersion {version!r} -> {expected!r}")
sys.exit(1 if failed else 0)
