"""F-C36b: FlowReader.stream lets exceptions other than FlowReadException escape.
(1) OverflowError: an int-typed field (peername port) holding the float inf -> serializable._process int(inf)
(2) RecursionError: deeply nested tnetstring list
Run: /venv/bin/python repro.py (cwd /repo)
"""
import io
from mitmproxy import exceptions
from mitmproxy.io import FlowReader, tnetstring
from mitmproxy.test import tflow

def attempt(label, raw):
    try:
        list(FlowReader(io.BytesIO(raw)).stream())
        print(label, "no exception")
    except exceptions.FlowReadException as e:
        print(label, "OK FlowReadException", str(e)[:60])
    except BaseException as e:
        print(label, "DEFECT", type(e).__name__, str(e)[:80])

st = tflow.tflow().get_state()
st["client_conn"]["peername"] = ("127.0.0.1", float("inf"))
attempt("int(inf)", tnetstring.dumps(st))

st = tflow.tflow().get_state()
st["client_conn"]["timestamp_start"] = float("nan")
attempt("nan", tnetstring.dumps(st))

raw = b"0:~"
for _ in range(3000):
    raw = str(len(raw)).encode() + b":" + raw + b"]"
attempt("deep nesting", raw)
