"""F-C36: FlowReader.stream lets KeyError/AssertionError/AttributeError escape.
A well-formed tnetstring that is not a valid flow state (e.g. {"version": 21}, or a state that
trips an assert / attribute access in set_state) must surface as FlowReadException.
"""
import io
import sys

from mitmproxy import exceptions
from mitmproxy import version
from mitmproxy.io import FlowReader
from mitmproxy.io import FlowWriter
from mitmproxy.io import tnetstring
from mitmproxy.test import tflow

V = version.FLOW_FORMAT_VERSION


def good_state():
    return tflow.tflow(resp=True).get_state()


def without(key):
    s = good_state()
    del s[key]
    return s


def with_(key, value):
    s = good_state()
    s[key] = value
    return s


cases = {
    "no type": {"version": V},
    "no client_conn": without("client_conn"),
    "client_conn is str": with_("client_conn", "foo"),
    "request is list": with_("request", [1, 2]),
    "request missing key": with_("request", {"method": b"GET"}),
    "error is int": with_("error", 42),
    "id missing": without("id"),
    "tcp messages int": {**tflow.ttcpflow().get_state(), "messages": 3},
    "unknown type": with_("type", "nope"),
    "extra key": with_("bogus", 1),
}

failed = False
for name, state in cases.items():
    fo = io.BytesIO(tnetstring.dumps(state))
    try:
        list(FlowReader(fo).stream())
    except exceptions.FlowReadException as e:
        print(f"ok: {name}: FlowReadException({e})")
    except Exception as e:
        failed = True
        print(f"FAIL: {name}: {type(e).__name__}({e}) escaped")
    else:
        print(f"ok: {name}: accepted")

# unchanged: valid flows are still read
fo = io.BytesIO()
FlowWriter(fo).add(tflow.tflow(resp=True))
fo.seek(0)
assert len(list(FlowReader(fo).stream())) == 1
sys.exit(1 if failed else 0)
