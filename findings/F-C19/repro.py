"""F-C19: NextLayer._get_host_header does not see "Host:example.com" (no whitespace).
RFC 9110 makes the whitespace after the colon optional; before the fix the sniffer
returns None for such a request, so ignore_hosts/allow_hosts rules are bypassed.
"""
import sys

from mitmproxy.addons.next_layer import NextLayer
from mitmproxy.test import tflow
from mitmproxy.proxy.context import Context
from mitmproxy import options

ctx = Context(tflow.tclient_conn(), options.Options())


def host(data: bytes):
    return NextLayer._get_host_header(ctx, data, b"")


failed = False
for data, expected in [
    (b"GET / HTTP/1.1\r\nHost:example.com\r\n\r\n", "example.com"),
    (b"GET / HTTP/1.1\r\nAccept: */*\r\nhost:example.com:8080 \r\n\r\n", "example.com:8080"),
    # unchanged behaviour
    (b"GET / HTTP/1.1\r\nHost: example.com\r\n\r\n", "example.com"),
    (b"GET / HTTP/1.1\r\nHost: \t example.com\t\r\nAccept: */*\r\n\r\n", "example.com"),
    (b"GET / HTTP/1.1\r\nAccept: */*\r\n\r\n", None),
    (b"GET / HTTP/1.1\r\nHost:\r\n\r\n", None),
    (b"GET / HTTP/1.1\r\nHost: \r\nAccept: */*\r\n\r\n", None),
]:
    got = host(data)
    if got != expected:
        failed = True
        print(f"FAIL: {data!r}: got {got!r}, expected {expected!r}")
if failed:
    sys.exit(1)
print("OK: Host header without optional whitespace is recognised")
