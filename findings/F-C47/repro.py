"""F-C47: FlowHandler.put only reverts the flow when the edit loop raises APIError.
PUT /flows/<id> {"request": {"method": "X", "port": "abc"}} raises ValueError from int("abc");
the method edit made before the failure is not reverted, leaving a half-edited flow.
"""
import sys
from unittest import mock

from mitmproxy.test import tflow
from mitmproxy.tools.web import app

failed = False


def put(body: dict):
    f = tflow.tflow(resp=True)

    class Handler(app.FlowHandler):
        flow = f
        json = body
        view = mock.Mock()
        current_user = True  # skip authentication

        def __init__(self):
            pass

    try:
        Handler().put(f.id)
    except Exception as e:
        return f, e, Handler.view
    return f, None, Handler.view


for body, field, original in [
    ({"request": {"method": "X", "port": "abc"}}, lambda f: f.request.method, "GET"),
    ({"response": {"reason": "X", "code": "abc"}}, lambda f: f.response.reason, "OK"),
    ({"request": {"method": "X", "headers": [["only-name"]]}}, lambda f: f.request.method, "GET"),
    # already handled today (APIError)
    ({"request": {"method": "X", "foo": 1}}, lambda f: f.request.method, "GET"),
]:
    f, exc, view = put(body)
    assert exc is not None, body
    if field(f) != original or view.update.called:
        failed = True
        print(f"FAIL: {body}: {type(exc).__name__} raised, but flow keeps partial edit {field(f)!r} (was {original!r})")
    else:
        print(f"ok: {body}: {type(exc).__name__} raised and flow reverted")

# unchanged: a valid edit is applied
f, exc, view = put({"request": {"method": "PATCH", "port": "123"}})
assert exc is None and f.request.method == "PATCH" and f.request.port == 123 and view.update.called
sys.exit(1 if failed else 0)
