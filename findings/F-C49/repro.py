"""F-C49: mitmdump (addons/dumper.py) writes flow-derived strings without escaping control characters.
An ESC byte in the WebSocket path / close reason, upstream host name, error message, DNS question
name, DNS record data or http_version reaches the output file verbatim (terminal escape injection).
"""
import io
import sys

from mitmproxy import dns
from mitmproxy import flow
from mitmproxy.addons import dumper
from mitmproxy.test import taddons
from mitmproxy.test import tflow
from mitmproxy.test import tutils

ESC = "\x1b]0;pwned\x07"
failed = False


def run(name, make, hook, detail=1):
    global failed
    sio = io.StringIO()
    d = dumper.Dumper(sio)
    with taddons.context(d) as ctx:
        ctx.configure(d, flow_detail=detail)
        f = make()
        getattr(d, hook)(f)
    out = sio.getvalue()
    if "\x1b" in out or "\x07" in out:
        failed = True
        print(f"FAIL: {name}: control characters in output: {out!r}")
    else:
        print(f"ok: {name}: {out!r}")


def ws_path():
    f = tflow.twebsocketflow()
    f.request.path = "/ws" + ESC
    return f


def ws_server():
    f = tflow.twebsocketflow()
    f.server_conn.address = ("host" + ESC, 80)
    return f


def ws_close_ok():
    f = tflow.twebsocketflow()
    f.websocket.close_code = 1000
    f.websocket.close_reason = "bye" + ESC
    return f


def ws_close_err():
    f = tflow.twebsocketflow()
    f.websocket.close_code = 1011
    f.websocket.close_reason = "boom" + ESC
    f.server_conn.address = ("host" + ESC, 80)
    return f


def tcp_err():
    f = tflow.ttcpflow(err=True)
    f.error = flow.Error("err" + ESC)
    f.server_conn.address = ("host" + ESC, 80)
    return f


def udp_err():
    f = tflow.tudpflow(err=True)
    f.error = flow.Error("err" + ESC)
    return f


def tcp_msg():
    f = tflow.ttcpflow()
    f.server_conn.address = ("host" + ESC, 80)
    return f


def udp_msg():
    f = tflow.tudpflow()
    f.server_conn.address = ("host" + ESC, 80)
    return f


def dns_name():
    f = tflow.tdnsflow(resp=True)
    f.request.questions[0].name = "evil" + ESC + ".example"
    return f


def dns_rr():
    f = tflow.tdnsflow(resp=True)
    f.response.answers = [dns.ResourceRecord.TXT("dns.google", "txt" + ESC)]
    return f


def dns_err():
    f = tflow.tdnsflow(err=True)
    f.request.questions[0].name = "evil" + ESC + ".example"
    return f


def http_version_req():
    f = tflow.tflow(resp=True)
    f.request.http_version = "HTTP/9" + ESC
    return f


def http_version_resp():
    f = tflow.tflow(resp=True)
    f.response.http_version = "HTTP/9" + ESC
    return f


run("websocket_message: request path", ws_path, "websocket_message")
run("websocket_message: server address", ws_server, "websocket_message")
run("websocket_end: close_reason (clean close)", ws_close_ok, "websocket_end")
run("websocket_end: close_reason + server address (error)", ws_close_err, "websocket_end")
run("tcp_error: error message + server address", tcp_err, "tcp_error")
run("udp_error: error message", udp_err, "udp_error")
run("tcp_message: server address", tcp_msg, "tcp_message")
run("udp_message: server address", udp_msg, "udp_message")
run("dns_response: question name", dns_name, "dns_response")
run("dns_response: resource record", dns_rr, "dns_response")
run("dns_error: question name", dns_err, "dns_error")
run("response: request http_version", http_version_req, "response")
run("response: response http_version", http_version_resp, "response")
sys.exit(1 if failed else 0)
