"""F-C23b: the self-connect check compares the listener mode's transport_protocol with the connection's by ==,
but modes that listen on both TCP and UDP (dns, reverse:dns://, reverse:quic/https h3, local, wireguard...) report "both",
which never equals "tcp"/"udp": a connection back to such a listener is not refused.
Triage only: cd /repo && /venv/bin/python /verif/findings/F-C23b/repro.py  (exit 1 = defect)"""
import sys, types
sys.path.insert(0, "/repo")
from mitmproxy.addons.proxyserver import Proxyserver
from mitmproxy.proxy import mode_specs, server_hooks
from mitmproxy.connection import Client, Server

ps = Proxyserver()
mode = mode_specs.ProxyMode.parse("dns@5353")
fake = types.SimpleNamespace(mode=mode, listen_addrs=[("127.0.0.1", 5353)])
ps.servers = [fake]
ps._connect_addr = None
bad = 0
for tp in ("udp", "tcp"):
    srv = Server(address=("127.0.0.1", 5353), transport_protocol=tp)
    data = server_hooks.ServerConnectionHookData(client=Client(peername=("c", 1), sockname=("s", 2)), server=srv)
    ps.server_connect(data)
    print(mode.full_spec, "listener transport:", mode.transport_protocol, "| connect", tp, "to own port -> error:", srv.error)
    bad += srv.error is None
print("DEFECT" if bad else "ok")
sys.exit(1 if bad else 0)
