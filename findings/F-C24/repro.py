"""F-C24 repro (one-off triage, not part of any check).

upstream mode + upstream_auth: the client opens a CONNECT tunnel to a plain-HTTP origin (what
`curl --proxytunnel -x mitmproxy http://example.com/secret` does: CONNECT example.com:80) and sends a *plain* HTTP
request through it.  UpstreamAuth.requestheaders only looks at (proxy_mode is UpstreamMode, request.scheme == "http")
and therefore attaches the upstream proxy's credentials to a request that is relayed *through the tunnel* to the
ORIGIN server.

Run:  cd /repo && /venv/bin/python /verif/findings/F-C24/repro.py
"""
import sys

sys.path.insert(0, "/repo")

from mitmproxy import connection, options
from mitmproxy.addons.proxyserver import Proxyserver
from mitmproxy.addons.upstream_auth import UpstreamAuth
from mitmproxy.connection import Server
from mitmproxy.http import HTTPFlow
from mitmproxy.proxy import context, layer
from mitmproxy.proxy.commands import OpenConnection, SendData
from mitmproxy.proxy.events import DataReceived
from mitmproxy.proxy.layers import http
from mitmproxy.proxy.layers.http import HTTPMode
from mitmproxy.proxy.layers.http._hooks import HttpConnectUpstreamHook
from mitmproxy.proxy.mode_specs import ProxyMode
from mitmproxy.test import taddons
import importlib.util

_spec = importlib.util.spec_from_file_location("tutils", "/repo/test/mitmproxy/proxy/tutils.py")  # the test-suite's playbook driver
tutils = importlib.util.module_from_spec(_spec)
_spec.loader.exec_module(tutils)
Placeholder, Playbook, reply, reply_next_layer = tutils.Placeholder, tutils.Playbook, tutils.reply, tutils.reply_next_layer

ua = UpstreamAuth()
with taddons.context(ua) as ta:
    ta.configure(ua, upstream_auth="proxyuser:proxypass")
    opts = options.Options()
    Proxyserver().load(opts)
    tctx = context.Context(
        connection.Client(peername=("client", 1234), sockname=("127.0.0.1", 8080), timestamp_start=1605699329,
                          state=connection.ConnectionState.OPEN),
        opts,
    )
    tctx.client.proxy_mode = ProxyMode.parse("upstream:http://proxy:8080")

    server = Placeholder(Server)
    f_connect = Placeholder(HTTPFlow)
    f_up = Placeholder(HTTPFlow)
    f = Placeholder(HTTPFlow)
    connect_to_proxy = Placeholder(bytes)
    to_origin = Placeholder(bytes)
    pb = Playbook(http.HttpLayer(tctx, HTTPMode.upstream), hooks=True)
    assert (
        pb
        >> DataReceived(tctx.client, b"CONNECT example.com:80 HTTP/1.1\r\nHost: example.com:80\r\n\r\n")
        << http.HttpConnectHook(f_connect)
        >> reply()
        << http.HttpConnectedHook(f_connect)
        >> reply()
        << SendData(tctx.client, b"HTTP/1.1 200 Connection established\r\n\r\n")
        >> DataReceived(tctx.client, b"GET /secret HTTP/1.1\r\nHost: example.com\r\n\r\n")
        << layer.NextLayerHook(Placeholder())
        >> reply_next_layer(lambda ctx: http.HttpLayer(ctx, HTTPMode.transparent))
        << http.HttpRequestHeadersHook(f)
        >> reply(side_effect=lambda flow: ua.requestheaders(flow))          # what the addon manager does
        << http.HttpRequestHook(f)
        >> reply()
        << OpenConnection(server)
        >> reply(None)
        << HttpConnectUpstreamHook(f_up)
        >> reply(side_effect=lambda flow: ua.http_connect_upstream(flow))   # legitimate: CONNECT goes to the proxy
        << SendData(server, connect_to_proxy)
        >> DataReceived(server, b"HTTP/1.1 200 Connection established\r\n\r\n")
        << SendData(server, to_origin)
    )
    print("upstream connection goes to:", server().address)
    print("1) CONNECT sent to the upstream proxy:\n   ", connect_to_proxy())
    print("2) request relayed through the tunnel to the origin example.com:80:\n   ", to_origin())
    leaked = b"proxy-authorization" in to_origin().lower()
    print("scheme seen by the addon:", f().request.scheme, "| proxy_mode:", type(f().client_conn.proxy_mode).__name__)
    print("RESULT:", "DEFECT - upstream proxy credentials were sent to the origin server through the tunnel"
          if leaked else "ok - no credentials inside the tunnel")
    sys.exit(1 if leaked else 0)
