"""F-C45ws: an argument made only of Unicode whitespace that quote() does not protect (NBSP, VT, FF, FS..US, U+2003 ...) is
left bare by command_lexer.quote(), lexed as ONE bare word, but then typed Space by CommandManager.parse_partial
(`part.isspace()`) and dropped by execute(): the command never receives it.
Triage evidence only: cd /repo && /venv/bin/python /verif/findings/F-C45ws/repro.py"""
import sys

sys.path.insert(0, "/repo")
from mitmproxy import command
from mitmproxy import command_lexer
from mitmproxy.test import taddons


class Recorder:
    def __init__(self):
        self.received = []

    @command.command("rec.many")
    def many(self, *values: str) -> None:
        self.received.append(tuple(values))


bad = []
with taddons.context() as tctx:
    r = Recorder()
    tctx.master.addons.add(r)
    for v in [" ", "\x0b", "\x0c", "\x1c", " ", "　", "  "]:
        r.received.clear()
        line = "rec.many " + command_lexer.quote(v) + " tail"
        toks = list(command_lexer.expr.parse_string(line, parse_all=True))
        tctx.master.commands.execute(line)
        print(f"value {v!r}: quote -> {command_lexer.quote(v)!r}, tokens {toks!r}, command received {r.received[0]!r}")
        if r.received[0] != (v, "tail"):
            bad.append(v)
print("REPRODUCED" if bad else "not reproduced")
