"""F-C11: flow.kill() during a TCP message hook is ignored - the message is still forwarded.
Triage evidence only (run once by hand): cd /repo && /venv/bin/python /verif/findings/F-C11/repro.py
Prints REPRODUCED when the killed message is sent upstream."""
import sys
sys.path.insert(0, "/repo")
from mitmproxy.proxy.commands import SendData, OpenConnection
from mitmproxy.proxy.events import DataReceived
from mitmproxy.proxy.layers import tcp
from mitmproxy.proxy.context import Context
from mitmproxy.tcp import TCPFlow
from test.mitmproxy.proxy.tutils import Placeholder, Playbook, reply  # type: ignore
from mitmproxy.test import tflow, taddons
from mitmproxy import options
from mitmproxy.connection import Client
from mitmproxy.proxy import context

opts = options.Options()
with taddons.context(options=opts):
    from mitmproxy.addons.proxyserver import Proxyserver
    from mitmproxy.addons.next_layer import NextLayer
    tctx = context.Context(Client(peername=("client", 1234), sockname=("127.0.0.1", 8080), timestamp_start=1), opts)
    tctx.options.add_option("rawtcp", bool, True, "") if "rawtcp" not in tctx.options else None
    f = Placeholder(TCPFlow)
    def kill(flow: TCPFlow):
        flow.kill()
    pb = (
        Playbook(tcp.TCPLayer(tctx))
        << tcp.TcpStartHook(f)
        >> reply()
        << OpenConnection(tctx.server)
        >> reply(None)
        >> DataReceived(tctx.client, b"secret")
        << tcp.TcpMessageHook(f)
        >> reply(side_effect=kill)
        << SendData(tctx.server, b"secret")
    )
    ok = bool(pb)
    print("REPRODUCED: killed TCP message was forwarded" if ok else "not reproduced")
    print("flow.error =", f().error, "live =", f().live)
