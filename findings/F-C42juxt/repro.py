"""F-C42juxt (known finding, not repaired): implicit conjunction by juxtaposition is rejected inside a parenthesised group.
Run: cd /repo && /venv/bin/python /verif/findings/F-C42juxt/repro.py"""
import sys

sys.path.insert(0, ".")
from mitmproxy import flowfilter

bad = 0
for e in ["~q ~s", "(~u a & ~u b)", "( ~q ~s )", "(~u a ~u b)", "~e ( ~q ~s )", "!(~e ~u cc)"]:
    try:
        print(f"{e!r:18} -> {flowfilter.parse(e)}")
    except ValueError as x:
        bad += 1
        print(f"{e!r:18} -> REJECTED ({x})")
print("REPRODUCED" if bad else "OK")
sys.exit(1 if bad else 0)
