"""F-C26c: decompress_from_record_data keeps track of how much the RDATA has grown with
`decompress_size += len(rr_name)` - the length of the *decoded unicode string*.  That equals the real growth
(len(pack(rr_name)) - 2 pointer octets) only for non-root ASCII names.  When a compression pointer in RDATA
refers to an internationalised name (wire label `xn--bcher-kva`, decoded by the idna codec to `bücher`) or to the
root name, every later pointer in the same RDATA (SOA RNAME, MINFO/RP/PX second name) is spliced in at the wrong
position: the record forwarded to the client is garbage, with no addon involved.

The zone `bücher.example.com` answers an SOA query the way real servers do: MNAME is a pointer to the owner name,
RNAME is `hostmaster` + pointer to the zone.  run: cd /repo && /venv/bin/python /verif/findings/F-C26c/repro.py
"""
import struct
import sys

from mitmproxy import dns
from mitmproxy.net.dns import types

idn_zone = b"\x0dxn--bcher-kva\x07example\x03com\x00"
failed = False
for label, zone in (("ascii zone (control)", b"\x06bucher\x07example\x03com\x00"), ("IDN zone", idn_zone)):
    question = zone + struct.pack("!HH", types.SOA, 1)  # zone name at offset 12
    timers = struct.pack("!IIIII", 2024010101, 7200, 3600, 1209600, 300)
    rdata = b"\xc0\x0c" + b"\x0ahostmaster\xc0\x0c" + timers
    want = zone + b"\x0ahostmaster" + zone + timers
    answer = b"\xc0\x0c" + struct.pack("!HHIH", types.SOA, 1, 60, len(rdata)) + rdata
    packet = struct.pack("!HHHHHH", 1, 0x8180, 1, 1, 0, 0) + question + answer
    msg = dns.DNSMessage.unpack(packet)
    got = msg.answers[0].data
    # what the client receives when nothing touches the flow
    again = dns.DNSMessage.unpack(msg.packed).answers[0].data
    if got != want or again != want:
        failed = True
        print(f"FAIL: {label}: SOA rdata forwarded as\n      {again!r}\n  expected\n      {want!r}")
    else:
        print(f"ok: {label}")
sys.exit(1 if failed else 0)
