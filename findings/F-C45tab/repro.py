"""Triage repro (not part of any check): a TAB inside a quoted command argument is expanded to spaces by pyparsing.
C45: "Any string, quoted with the console's quoting rule and placed in a command line, is passed to the executed command unchanged".
Run: cd /repo && /venv/bin/python /verif/findings/F-C45tab/repro.py"""
import sys
sys.path.insert(0, "/repo")
from mitmproxy import command_lexer
bad = []
for v in ["a\tb", "\t", "x \t y"]:
    q = command_lexer.quote(v)
    toks = command_lexer.expr.parse_string("cmd " + q, parse_all=True)
    got = command_lexer.unquote(toks[-1])
    print(repr(v), "->", repr(q), "->", repr(got))
    if got != v:
        bad.append(v)
assert not bad, f"C45 violated: arguments altered: {bad!r}"
print("OK")
