"""F-C06: an HTTP/2 request WITH a body but WITHOUT content-length, streamed (flow.request.stream / stream_large_bodies) to an HTTP/1
upstream, is written as a header block without Content-Length / Transfer-Encoding followed by the raw body bytes: the HTTP/1 server
reads a body-less request followed by whatever the body says - a second request of the client's choosing (request smuggling).
Run: cd /repo && /venv/bin/python /verif/findings/F-C06/repro.py"""
import sys

sys.path.insert(0, ".")
import h2.connection

from mitmproxy import connection, options
from mitmproxy.addons.proxyserver import Proxyserver
from mitmproxy.proxy import commands, context, events
from mitmproxy.proxy.layers import http
from mitmproxy.proxy.layers.http import HTTPMode

STREAM = "--buffered" not in sys.argv
opts = options.Options()
Proxyserver().load(opts)
tctx = context.Context(
    connection.Client(peername=("client", 1234), sockname=("127.0.0.1", 8080), timestamp_start=1, state=connection.ConnectionState.OPEN), opts
)
tctx.client.alpn = b"h2"
tctx.options.http2_ping_keepalive = 0
layer = http.HttpLayer(tctx, HTTPMode.regular)
to_client, to_server = bytearray(), bytearray()


def feed(ev):
    """deliver an event; hooks are answered immediately (the requestheaders hook turns streaming on), connections open fine"""
    todo = [ev]
    while todo:
        for c in layer.handle_event(todo.pop(0)):
            if isinstance(c, commands.StartHook):
                if STREAM and isinstance(c, http.HttpRequestHeadersHook):
                    c.flow.request.stream = True  # what stream_large_bodies does for a body of unknown length once it is large
                todo.append(events.HookCompleted(c, None))
            elif isinstance(c, commands.OpenConnection):
                c.connection.state = connection.ConnectionState.OPEN
                todo.append(events.OpenConnectionCompleted(c, None))
            elif isinstance(c, commands.SendData):
                (to_client if c.connection is tctx.client else to_server).extend(c.data)


feed(events.Start())
conn = h2.connection.H2Connection()
conn.initiate_connection()
conn.receive_data(bytes(to_client))
feed(events.DataReceived(tctx.client, conn.data_to_send()))
smuggled = b"GET /admin HTTP/1.1\r\nHost: internal\r\n\r\n"
conn.send_headers(1, [(":method", "POST"), (":scheme", "http"), (":path", "/upload"), (":authority", "example.com")], end_stream=False)
conn.send_data(1, smuggled, end_stream=True)
feed(events.DataReceived(tctx.client, conn.data_to_send()))

print("bytes written to the HTTP/1 upstream:")
print(bytes(to_server).decode())
head, _, rest = bytes(to_server).partition(b"\r\n\r\n")
framed = b"content-length" in head.lower() or b"transfer-encoding" in head.lower()
if not framed and rest:
    print("REPRODUCED: the request head announces no body, yet", len(rest), "body bytes follow - an HTTP/1 server parses them as the next request")
    sys.exit(1)
print("OK: the body is framed")
