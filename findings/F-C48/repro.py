"""F-C48: export.request_content_for_console uses the request body as the FORMAT operand of printf but escapes only control
characters - '%' and '\\' of the body are re-interpreted by printf.  Run: /venv/bin/python repro.py  (needs bash)"""
import subprocess

from mitmproxy.addons import export
from mitmproxy.test import tflow

f = tflow.tflow()
body = "a\x01 100%s literal\\n end"  # one control character forces the printf branch
f.request.content = body.encode()
frag = export.request_content_for_console(f.request)
print("fragment:", frag)
out = subprocess.run(["bash", "-c", f"printf '%s' {frag}"], capture_output=True).stdout.decode()
print("shell yields:", repr(out))
print("body        :", repr(body))
assert out != body, "not reproduced"
print("REPRODUCED: the exported command sends a different body")
