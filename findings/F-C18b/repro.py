"""Triage repro (not part of any check): secure web proxy outer TLS session, client offers h2 + http/1.1.

C18: "on a secure web proxy's outer connection only HTTP/1.1 is selected".
Run: cd /repo && /venv/bin/python /verif/findings/F-C18b/repro.py
"""
import collections, ssl, sys
from pathlib import Path
sys.path.insert(0, "/repo")
from mitmproxy import connection, options
from mitmproxy.addons import next_layer, tlsconfig
from mitmproxy.addons.proxyserver import Proxyserver
from mitmproxy.proxy import commands, context, events
from mitmproxy.proxy.layers import modes
from mitmproxy.proxy.mode_specs import ProxyMode
from mitmproxy.test import taddons
from test.mitmproxy.proxy.layers import test_tls

CERTS = Path(test_tls.__file__).parents[2] / "net/data/verificationcerts"
opts = options.Options()
Proxyserver().load(opts)
ta = tlsconfig.TlsConfig(); nl = next_layer.NextLayer()
with taddons.context(nl, ta, options=opts) as tctx:
    ta.configure(["confdir"])
    tctx.configure(ta, certs=[str(CERTS / "trusted-leaf.pem")])
    client_conn = connection.Client(peername=("client", 1234), sockname=("127.0.0.1", 8080), timestamp_start=1,
                                    state=connection.ConnectionState.OPEN, proxy_mode=ProxyMode.parse("regular"))
    ctx = context.Context(client_conn, tctx.options)
    top = modes.HttpProxy(ctx)
    to_client = bytearray(); q = collections.deque(); layers_at_start = []
    def feed(ev):
        q.append(ev)
        while q:
            e = q.popleft()
            for cmd in top.handle_event(e):
                if isinstance(cmd, commands.StartHook):
                    if cmd.name == "tls_start_client":
                        layers_at_start.append([type(l).__name__ for l in cmd.args()[0].context.layers])
                    for a in (nl, ta):
                        h = getattr(a, cmd.name, None)
                        if h: h(*cmd.args())
                    if cmd.blocking: q.append(events.HookCompleted(cmd, None))
                elif isinstance(cmd, commands.SendData):
                    to_client.extend(cmd.data)
    feed(events.Start())
    outer = test_tls.SSLTest(alpn=["h2", "http/1.1"])
    for _ in range(10):
        try:
            outer.do_handshake(); break
        except ssl.SSLWantReadError:
            pass
        feed(events.DataReceived(client_conn, outer.bio_read()))
        outer.bio_write(bytes(to_client)); to_client.clear()
    print("context.layers at tls_start_client:", layers_at_start)
    print("outer ALPN selected for the secure web proxy connection:", outer.obj.selected_alpn_protocol())
    assert outer.obj.selected_alpn_protocol() == "http/1.1", "C18 violated: secure web proxy selected " + str(outer.obj.selected_alpn_protocol())
    print("OK")
