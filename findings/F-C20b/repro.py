"""F-C20b repro (one-off triage, not part of any check).

proxyauth + stream_large_bodies: an unauthenticated client that sends a request whose Content-Length exceeds
stream_large_bodies does NOT get the 407 answer.  check_body_size() turns on request streaming *before* the
requestheaders hook; ProxyAuth then sets flow.response = 407; HttpStream.start_request_stream() raises
NotImplementedError("Can't set a response and enable streaming at the same time.") and the exception escapes the
layer stack (the connection handler logs "mitmproxy has crashed!").  Nothing is forwarded, but the client never
receives the authentication-required answer the property promises (and a well-behaved client that first probes
without credentials can never authenticate a large upload).

Run:  cd /repo && /venv/bin/python /verif/findings/F-C20b/repro.py      exit 1 = defect present
"""
import importlib.util
import sys

sys.path.insert(0, "/repo")

from mitmproxy import connection, options
from mitmproxy.addons.proxyauth import ProxyAuth
from mitmproxy.addons.proxyserver import Proxyserver
from mitmproxy.http import HTTPFlow
from mitmproxy.proxy import context
from mitmproxy.proxy.commands import SendData
from mitmproxy.proxy.events import DataReceived
from mitmproxy.proxy.layers import http
from mitmproxy.proxy.layers.http import HTTPMode
from mitmproxy.proxy.mode_specs import ProxyMode
from mitmproxy.test import taddons

_spec = importlib.util.spec_from_file_location("tutils", "/repo/test/mitmproxy/proxy/tutils.py")
tutils = importlib.util.module_from_spec(_spec)
_spec.loader.exec_module(tutils)
Placeholder, Playbook, reply = tutils.Placeholder, tutils.Playbook, tutils.reply

pa = ProxyAuth()
with taddons.context(pa) as ta:
    ta.configure(pa, proxyauth="user:secret")
    opts = options.Options()
    Proxyserver().load(opts)
    opts.stream_large_bodies = "1k"
    tctx = context.Context(
        connection.Client(peername=("client", 1234), sockname=("127.0.0.1", 8080), timestamp_start=1605699329,
                          state=connection.ConnectionState.OPEN),
        opts,
    )
    tctx.client.proxy_mode = ProxyMode.parse("regular")
    f = Placeholder(HTTPFlow)
    answer = Placeholder(bytes)
    pb = Playbook(http.HttpLayer(tctx, HTTPMode.regular), hooks=True)
    try:
        assert (
            pb
            >> DataReceived(tctx.client, b"POST http://example.com/upload HTTP/1.1\r\nHost: example.com\r\nContent-Length: 100000\r\n\r\n")
            << http.HttpRequestHeadersHook(f)
            >> reply(side_effect=lambda flow: pa.requestheaders(flow))   # what the addon manager does
            << SendData(tctx.client, answer)
        )
    except AssertionError as e:  # the playbook driver reports an exception escaping the layer as a mismatch
        msg = str(e)
        if "NotImplementedError: Can't set a response and enable streaming at the same time." not in msg:
            raise
        print("ProxyAuth set flow.response to:", f().response.status_code)
        print("layer raised: NotImplementedError: Can't set a response and enable streaming at the same time.")
        print("RESULT: DEFECT - the unauthenticated client gets no 407, the layer stack raises instead")
        sys.exit(1)
    print("client received:", answer()[:60])
    print("RESULT: ok" if answer().startswith(b"HTTP/1.1 407") else "RESULT: unexpected answer")
    sys.exit(0 if answer().startswith(b"HTTP/1.1 407") else 1)
