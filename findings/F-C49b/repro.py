"""F-C49b: strutils.escape_control_characters leaves the C1 control block (U+0080..U+009F) untouched.

The dumper relies on it as THE sanitiser for terminal output.  U+009B is CSI (the 8-bit form of ESC [), U+009D is OSC,
U+0090 DCS; xterm-compatible terminals honour them in UTF-8 mode.  Property C49: "no escape character and no other
control character except tab, newline and carriage return".  Run: /venv/bin/python repro.py
"""
import io
import unicodedata

from mitmproxy import options
from mitmproxy.addons import dumper
from mitmproxy.test import taddons, tflow
from mitmproxy.utils import strutils

s = "a\x9b31mred\x9d0;title\x07\x85b"
out = strutils.escape_control_characters(s)
left = [hex(ord(c)) for c in out if unicodedata.category(c) == "Cc" and c not in "\t\n\r"]
print("escape_control_characters leaves:", left)

sio = io.StringIO()
d = dumper.Dumper(sio)
with taddons.context(d, options=options.Options()) as ctx:
    ctx.configure(d, flow_detail=1)
    f = tflow.tflow(resp=True)
    f.request.path = "/x\u009b31mINJECTED"
    f.response.reason = "OK\u009b2J"
    d.response(f)
text = sio.getvalue()
bad = sorted({hex(ord(c)) for c in text if unicodedata.category(c) == "Cc" and c not in "\t\n\r"})
print("control characters written by mitmdump (styling off):", bad)
assert left and bad, "not reproduced"
print("REPRODUCED")
