"""F-C20: parse_http_basic_auth rejects passwords that contain a colon.
"Basic base64(user:p:w)" must parse to user="user", password="p:w" (RFC 7617);
before the fix split(":") yields three parts and a ValueError is raised.
"""
import base64
import sys

from mitmproxy.addons.proxyauth import parse_http_basic_auth

header = "Basic " + base64.b64encode(b"user:p:w").decode()
try:
    got = parse_http_basic_auth(header)
except ValueError as e:
    print(f"FAIL: ValueError({e}) for credentials user / p:w")
    sys.exit(1)
assert got == ("Basic", "user", "p:w"), got
# unchanged behaviour
assert parse_http_basic_auth("basic " + base64.b64encode(b"foo:bar").decode()) == ("basic", "foo", "bar")
try:
    parse_http_basic_auth("Basic " + base64.b64encode(b"nocolon").decode())
except ValueError:
    pass
else:
    raise AssertionError("missing colon must still be rejected")
print("OK:", got)
