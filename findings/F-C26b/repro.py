"""F-C26b: decompress_from_record_data scans EVERY byte of the RDATA of "compressible" types for a
0b11 prefix, without knowing where the type's layout has domain names.  Integer fields whose high
byte is >= 0xC0 (SRV port in the ephemeral range 49152..65535, MX preference, SOA counters) are
taken for compression pointers and replaced by whatever name the "pointer" happens to hit.
"""
import struct
import sys

from mitmproxy import dns
from mitmproxy.net.dns import types

failed = False
q = b"\x07example\x03com\x00"
cases = [
    # SRV: priority 0, weight 5, port 0xC00C (= 49164, an ordinary ephemeral port), target "sip.example.com" (compressed)
    (types.SRV, struct.pack("!HHH", 0, 5, 0xC00C) + b"\x03sip\xc0\x0c", struct.pack("!HHH", 0, 5, 0xC00C) + b"\x03sip" + q),
    # MX: preference 0xC00C, exchange "mx.example.com" (compressed)
    (types.MX, struct.pack("!H", 0xC00C) + b"\x02mx\xc0\x0c", struct.pack("!H", 0xC00C) + b"\x02mx" + q),
]
for rtype, rdata, want in cases:
    question = q + struct.pack("!HH", rtype, 1)
    answer = b"\xc0\x0c" + struct.pack("!HHIH", rtype, 1, 60, len(rdata)) + rdata
    packet = struct.pack("!HHHHHH", 1, 0x8180, 1, 1, 0, 0) + question + answer
    got = dns.DNSMessage.unpack(packet).answers[0].data
    if got != want:
        failed = True
        print(f"FAIL: {types.to_str(rtype)} rdata {rdata!r}: expected {want!r}, mitmproxy produced {got!r}")
    else:
        print(f"ok: {types.to_str(rtype)}: {got!r}")
sys.exit(1 if failed else 0)
