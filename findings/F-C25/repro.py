"""F-C25: a DNS label such as b"xn--" makes .decode("idna") raise plain UnicodeError.
_unpack_label_into only converts UnicodeDecodeError to struct.error, so the UnicodeError
escapes domain_names.unpack / dns.DNSMessage.unpack, whose callers only expect struct.error.
"""
import struct
import sys

from mitmproxy.net.dns import domain_names

failed = False
for raw in [b"\x04xn--\x00", b"\x06xn--\xc3\xa4\x03com\x00", b"\x02\xff\xfe\x00"]:
    try:
        domain_names.unpack(raw)
    except struct.error as e:
        print(f"ok: {raw!r}: struct.error({e})")
    except Exception as e:
        failed = True
        print(f"FAIL: {raw!r}: {type(e).__name__}({e}) escaped instead of struct.error")
    else:
        print(f"ok: {raw!r} decoded")
assert domain_names.unpack(b"\x07xn--4ca\x03com\x00") == "\xe4.com"
sys.exit(1 if failed else 0)
