"""F-C26: TXT/HINFO RDATA is scanned for DNS compression pointers although it is opaque.
A TXT record whose character-string contains the bytes \\xc0\\x0c gets those bytes replaced
by the question name on DNSMessage.unpack, so the record data is rewritten when forwarded.
"""
import struct
import sys

from mitmproxy import dns
from mitmproxy.net.dns import types

failed = False
for rtype, rdata in [
    (types.TXT, b"\x07hello\xc0\x0c"),
    (types.HINFO, b"\x03\xc0\x0c!\x02OS"),
]:
    question = b"\x07example\x03com\x00" + struct.pack("!HH", rtype, 1)
    answer = b"\xc0\x0c" + struct.pack("!HHIH", rtype, 1, 60, len(rdata)) + rdata
    packet = struct.pack("!HHHHHH", 1, 0x8180, 1, 1, 0, 0) + question + answer
    msg = dns.DNSMessage.unpack(packet)
    got = msg.answers[0].data
    if got != rdata:
        failed = True
        print(f"FAIL: {types.to_str(rtype)} rdata {rdata!r} was rewritten to {got!r}")
    else:
        print(f"ok: {types.to_str(rtype)} rdata preserved: {got!r}")

# unchanged: names in e.g. CNAME rdata are still decompressed
rdata = b"\x03www\xc0\x0c"
question = b"\x07example\x03com\x00" + struct.pack("!HH", types.CNAME, 1)
answer = b"\xc0\x0c" + struct.pack("!HHIH", types.CNAME, 1, 60, len(rdata)) + rdata
msg = dns.DNSMessage.unpack(struct.pack("!HHHHHH", 1, 0x8180, 1, 1, 0, 0) + question + answer)
assert msg.answers[0].domain_name == "www.example.com", msg.answers[0].data
sys.exit(1 if failed else 0)
