"""F-C25c: a long chain of compression pointers (each pointing to the next, no loop) drives
domain_names.unpack_from_with_compression into RecursionError, which is not struct.error and therefore
escapes DNSLayer.state_query.  Run: /venv/bin/python repro.py (cwd /repo)
"""
import struct
from mitmproxy import dns

N = 3000
hdr = struct.pack("!HHHHHH", 1, 0, 1, 0, 0, 0)
# question name at offset 12 is a pointer to offset 12+4+2 ... build: question(name=ptr->P0, type, class) then chain P0->P1->...->root
body = bytearray()
start_chain = 12 + 2 + 4
body += struct.pack("!H", 0xC000 | start_chain) + struct.pack("!HH", 1, 1)
for k in range(N):
    nxt = start_chain + 2 * (k + 1)
    body += struct.pack("!H", 0xC000 | nxt)
body += b"\x00"
try:
    dns.DNSMessage.unpack(hdr + bytes(body))
    print("no exception")
except struct.error as e:
    print("OK struct.error", e)
except BaseException as e:
    print("DEFECT", type(e).__name__, str(e)[:80])
