"""Triage repro (not part of any check): a sticky cookie learned for .google.com is attached to www.google.com.evil.org.
Run: cd /repo && /venv/bin/python /verif/findings/F-C54b/repro.py"""
import sys
sys.path.insert(0, "/repo")
from mitmproxy.addons import stickycookie
from mitmproxy.test import taddons, tflow

sc = stickycookie.StickyCookie()
with taddons.context(sc) as tctx:
    tctx.configure(sc, stickycookie=".")
    f = tflow.tflow(resp=True)
    f.request.host = "www.google.com"
    f.response.headers["set-cookie"] = "SID=secret; Domain=.google.com; Path=/"
    sc.response(f)
    g = tflow.tflow()
    g.request.host = "www.google.com.evil.org"
    g.request.headers.pop("cookie", None)
    sc.request(g)
    print("cookie header sent to www.google.com.evil.org:", g.request.headers.get("cookie"))
    assert "cookie" not in g.request.headers, "C54 violated: cookie for .google.com attached to www.google.com.evil.org"
    h = tflow.tflow()
    h.request.host = "mail.google.com"
    sc.request(h)
    assert h.request.headers.get("cookie") == "SID=secret", h.request.headers.get("cookie")
    print("OK")
