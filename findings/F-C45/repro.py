"""F-C45: quote() escapes '"' as \\x22 when both quote characters occur, unquote() never reverses it.
Triage evidence only: cd /repo && /venv/bin/python /verif/findings/F-C45/repro.py"""
import sys
sys.path.insert(0, "/repo")
from mitmproxy import command_lexer as cl
v = "a\"b'c"
q = cl.quote(v)
toks = [t for t in cl.expr.parseString(q, parseAll=True)]
back = cl.unquote(toks[0])
print("quoted:", q, "tokens:", toks, "unquoted:", back)
print("REPRODUCED" if back != v else "not reproduced")
