"""F-C44: OptManager.update is not atomic when a later value has the wrong type.
update(a=5, b="wrong type") sets a, then raises TypeError from the type check of b; rollback
only handles OptionsError, so a stays changed and no listener was ever told about it.
"""
import sys

from mitmproxy import optmanager


class TO(optmanager.OptManager):
    def __init__(self):
        super().__init__()
        self.add_option("a", int, 1, "")
        self.add_option("b", int, 2, "")


o = TO()
seen = []


def on_changed(updated):
    seen.append(set(updated))


o.changed.connect(on_changed)

try:
    o.update(a=5, b="wrong type")
except TypeError as e:
    print(f"ok: TypeError raised: {e}")
else:
    print("FAIL: no TypeError raised")
    sys.exit(1)

failed = False
if o.a != 1:
    failed = True
    print(f"FAIL: failed update left a={o.a} (expected 1), listeners notified: {seen}")
else:
    print(f"ok: failed update changed nothing (a={o.a}, b={o.b}), listeners notified: {seen}")

# unchanged: a valid update is applied and announced once
seen.clear()
o.update(a=7, b=8)
assert (o.a, o.b) == (7, 8) and seen == [{"a", "b"}], (o.a, o.b, seen)
sys.exit(1 if failed else 0)
