"""Triage repro (not part of any check): six upstream connections to one address, then the client disconnects.

C09: "each upstream connection attempt that fires server_connect then fires exactly one of server_connected or
server_connect_error" for any timing of cancellations and client disconnects.
The sixth attempt fires server_connect and then waits for the per-address semaphore (5); the client disconnect cancels it there.
Run: cd /repo && /venv/bin/python /verif/findings/F-C09/repro.py
"""
import asyncio, sys
from dataclasses import dataclass
sys.path.insert(0, "/repo")
from mitmproxy import options
from mitmproxy.connection import Server
from mitmproxy.proxy import commands, events, layer, server
from mitmproxy.proxy.mode_specs import ProxyMode

ADDR = ("upstream.test", 443)

class FakeReader:
    def __init__(self): self.q = asyncio.Queue()
    async def read(self, n): return await self.q.get()

class FakeWriter:
    closed = False
    def write(self, d): pass
    def write_eof(self): pass
    async def drain(self): pass
    def is_closing(self): return self.closed
    def close(self): self.closed = True
    def get_extra_info(self, name, default=None):
        return {"peername": ("127.0.0.1", 50000), "sockname": ("127.0.0.1", 8080)}.get(name, default)

@dataclass
class Poke(events.Event):
    pass

class Scripted(layer.Layer):
    def __init__(self, ctx):
        super().__init__(ctx); self.pending = []; self.seen = []
    def handle_event(self, event):
        self.seen.append(event)
        if isinstance(event, events.ConnectionClosed) and event.connection is self.context.client:
            yield commands.CloseConnection(event.connection)
        p, self.pending = self.pending, []
        yield from p
    def _handle_event(self, event): raise NotImplementedError

class H(server.LiveConnectionHandler):
    def __init__(self, r, w):
        super().__init__(r, w, options.Options(), ProxyMode.parse("regular")); self.hooks = []
    async def handle_hook(self, hook):
        (data,) = hook.args(); self.hooks.append((hook.name, getattr(data, "server", data)))

async def settle():
    for _ in range(50): await asyncio.sleep(0)

async def main():
    async def fake_open(host, port, **kw): return FakeReader(), FakeWriter()
    asyncio.open_connection = fake_open
    cr, cw = FakeReader(), FakeWriter()
    h = H(cr, cw); s = Scripted(h.layer.context); h.layer = s
    task = asyncio.create_task(h.handle_client()); await settle()
    servers = [Server(address=ADDR) for _ in range(6)]
    s.pending.extend(commands.OpenConnection(x) for x in servers)
    await h.server_event(Poke()); await settle()
    cr.q.put_nowait(b"")          # client disconnects
    await asyncio.wait_for(task, 5)
    bad = 0
    for i, srv in enumerate(servers):
        names = [n for n, d in h.hooks if d is srv]
        print(i, names)
        if names.count("server_connect") == 1 and names.count("server_connected") + names.count("server_connect_error") != 1:
            bad += 1
    answered = sum(1 for e in s.seen if isinstance(e, events.OpenConnectionCompleted))
    print("OpenConnectionCompleted events:", answered, "of 6")
    assert bad == 0, f"C09 violated: {bad} attempt(s) fired server_connect without exactly one of server_connected/server_connect_error"
    print("OK")

asyncio.run(main())
