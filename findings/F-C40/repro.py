"""F-C40: Flow.modified() is True immediately after Flow.backup() although nothing was edited.

C40: "a flow reports itself as modified exactly when its current state differs from its backup".

Cause (mitmproxy/flow.py): Flow.get_state() ends with
    state["backup"] = copy.deepcopy(self._backup) if self._backup != state else None
At that point `state` has no "backup" key yet, whereas every stored backup (itself produced by get_state()) has one
("backup": None).  So `self._backup != state` is always true once a backup exists, get_state()["backup"] is a copy of
the backup (not None), and modified() = `self._backup != self.get_state()` compares {"backup": None, ...} with
{"backup": {...}, ...}: never equal.  Consequences: `modified` is shown for every flow that was merely backed up
(mitmweb "modified" flag, console quick help, core addon's revert command acts on unmodified flows).

Status: triaged genuine, repaired in /repo by ec24fccfb (Flow.modified() resets the "backup" entry of the freshly
computed state before comparing).  A get_state()-side repair cannot work: for HTTPFlow/TCPFlow/UDPFlow/DNSFlow the
partial `state` inside Flow.get_state() lacks the subclass keys, so `self._backup != state` stays always true.
On the repaired tree this script prints False three times.

Run: /venv/bin/python /verif/findings/F-C40/repro.py   (one-off reproduction, not part of any check)
"""
from mitmproxy.test import tflow

for make in (lambda: tflow.tflow(resp=True), tflow.ttcpflow, tflow.tdnsflow):
    f = make()
    assert not f.modified()
    f.backup()
    print(type(f).__name__, "modified() right after backup(), no edits:", f.modified(), "(expected False)")
    before = f.get_state()
    f.revert()
    assert not f.modified()
