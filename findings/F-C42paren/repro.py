"""F-C42paren: an argument-less filter operator directly followed by ")" is rejected ("(~q)", "(~q | ~s)", "!(~q)", "(~u x | ~q)"),
while "( ~q )" and "(~u x)" are accepted: every operator literal is followed by pyparsing's WordEnd() whose default word characters are
all printables, ")" included.  Property C42: parenthesised grouping of the documented operators is accepted.
Run: cd /repo && /venv/bin/python /verif/findings/F-C42paren/repro.py"""
import sys

sys.path.insert(0, ".")
from mitmproxy import flowfilter

bad = 0
for e in ["(~q)", "( ~q )", "(~q | ~s)", "!(~q)", "~q & (~s)", "(~u x | ~q)", "(~a)", "(~u x)", "(~c 200)"]:
    try:
        print(f"{e!r:16} -> {flowfilter.parse(e)}")
    except ValueError as x:
        bad += 1
        print(f"{e!r:16} -> REJECTED ({x})")
# the word-end test must keep separating operator names
for e in ["~hq x", "~bq foo"]:
    assert "header" in str(flowfilter.parse(e)) or "body request" in str(flowfilter.parse(e))
for e in ["~qx", "~c(200)"]:
    try:
        flowfilter.parse(e)
        raise SystemExit(f"{e!r} unexpectedly accepted")
    except ValueError:
        pass
print("REPRODUCED" if bad else "OK: every grouped form is accepted")
sys.exit(1 if bad else 0)
