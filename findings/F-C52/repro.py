"""F-C52 (suspected): ServerPlayback.recompute_hashes loses recording order across former key groups.

Recordings A(host a), B(host b), C(host a), all GET /x.  With server_replay_ignore_host=False the keys are
{k_a: [A, C], k_b: [B]}.  Switching server_replay_ignore_host to True re-indexes via
[flow for lst in flowmap.values() for flow in lst] == [A, C, B], so the three now-equal-key recordings are
served as A, C, B instead of the recording order A, B, C.
"""
from mitmproxy.addons import serverplayback
from mitmproxy.test import taddons, tflow


def mk(host, body):
    f = tflow.tflow(resp=True)
    f.request.host = host
    f.request.path = "/x"
    f.request.headers["host"] = host
    f.response.content = body
    return f


s = serverplayback.ServerPlayback()
with taddons.context(s) as tctx:
    tctx.configure(s, server_replay_ignore_host=False)
    A, B, C = mk("a.example", b"A"), mk("b.example", b"B"), mk("a.example", b"C")
    s.load_flows([A, B, C])
    tctx.configure(s, server_replay_ignore_host=True)  # triggers recompute_hashes
    served = []
    for _ in range(3):
        q = tflow.tflow()
        q.request.host = "c.example"
        q.request.path = "/x"
        s.request(q)
        served.append(q.response.content if q.response else None)
    print("served:", served)
    assert served == [b"A", b"B", b"C"], f"recording order A,B,C expected, got {served}"
